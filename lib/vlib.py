"""Shared machinery of /verif/bin/check: build, harness and TLC runners, evidence, findings.

Python 3 standard library only.
"""
import concurrent.futures
import fcntl
import hashlib
import json
import os
import re
import shutil
import subprocess
import threading
import sys
import time

ROOT = os.path.dirname(os.path.dirname(os.path.abspath(__file__)))
SPEC = os.path.join(ROOT, "spec")
WORK = os.path.join(ROOT, "work")
EVID = os.path.join(ROOT, "evidence")
REPLAYS = os.path.join(ROOT, "replays")
HARNESS_DIR = os.path.join(ROOT, "harness")
HARNESS_BIN = os.path.join(ROOT, "target", "harness", "debug", "harness")
LACE_TARGET = os.path.join(ROOT, "target", "lace")
LACE_BIN = os.path.join(LACE_TARGET, "debug", "lace")
REPO = os.environ.get("VERIF_REPO", "/repo")      # (the override is only used by bin/seed-regress-par, on scratch copies)
FINDINGS = os.path.join(ROOT, "known_findings.json")

TOOL_ERROR = 2


class ToolError(Exception):
    pass


def log(*a):
    print(*a, file=sys.stderr, flush=True)


def cargo_env():
    env = dict(os.environ)
    env["CARGO_NET_OFFLINE"] = "true"
    env.pop("RUSTFLAGS", None)
    return env


def build(need_cli=False):
    """Rebuild harness (and, if asked, the real `lace` binary) from /repo's working tree."""
    os.makedirs(WORK, exist_ok=True)
    os.makedirs(os.path.join(ROOT, "target"), exist_ok=True)
    lock = open(os.path.join(ROOT, "target", ".build.lock"), "w")
    fcntl.flock(lock, fcntl.LOCK_EX)
    t0 = time.time()
    try:
        lockfile = os.path.join(HARNESS_DIR, "Cargo.lock")
        if not os.path.exists(lockfile):
            shutil.copy(os.path.join(REPO, "Cargo.lock"), lockfile)
        r = subprocess.run(["cargo", "build", "--offline", "--quiet"], cwd=HARNESS_DIR,
                           env=cargo_env(), stdout=subprocess.PIPE, stderr=subprocess.STDOUT, text=True)
        if r.returncode != 0:
            raise ToolError("harness build failed (does /repo still compile with --cfg lace_verif?)\n" + r.stdout[-4000:])
        if need_cli:
            r = subprocess.run(["cargo", "build", "--offline", "--quiet", "--bin", "lace",
                                "--target-dir", LACE_TARGET], cwd=REPO, env=cargo_env(),
                               stdout=subprocess.PIPE, stderr=subprocess.STDOUT, text=True)
            if r.returncode != 0:
                raise ToolError("lace build failed\n" + r.stdout[-4000:])
    finally:
        fcntl.flock(lock, fcntl.LOCK_UN)
        lock.close()
    return time.time() - t0


class HarnessHang(ToolError):
    """The harness' watchdog fired: the code under test was still working on ONE case after the wall-clock limit.
    `.case` describes the case. Whether that is a verdict depends on the property (C05: yes)."""
    def __init__(self, case, args):
        ToolError.__init__(self, "code under test does not terminate on a case of %r: %s" % (args, case[:300]))
        self.case = case


_hang_seq = [0]


def harness(args, timeout=1800, stdin_data=None):
    """Run the harness; returns the JSON summary it prints as its last stdout line."""
    errlog = open(os.path.join(WORK, "harness.stderr"), "ab")
    _hang_seq[0] += 1
    hang_file = os.path.join(WORK, "hang_%d_%d_%d.json" % (os.getpid(), threading.get_ident(), _hang_seq[0]))
    env = dict(os.environ)
    env["VERIF_HANG_FILE"] = hang_file
    try:
        r = subprocess.run([HARNESS_BIN] + [str(a) for a in args], stdout=subprocess.PIPE, stderr=errlog,
                           stdin=subprocess.DEVNULL if stdin_data is None else None,
                           input=stdin_data, timeout=timeout, env=env)
    except subprocess.TimeoutExpired:
        raise ToolError("harness timed out: %r" % (args,))
    finally:
        errlog.close()
    if r.returncode == 3 and os.path.exists(hang_file):
        try:
            case = json.load(open(hang_file)).get("hang", "?")
        finally:
            os.remove(hang_file)
        raise HarnessHang(case, args)
    if r.returncode != 0:
        raise ToolError("harness failed (%d): %r\n%s" % (r.returncode, args, r.stdout[-2000:]))
    # the code under test prints to the same stdout; the summary is the last line
    lines = r.stdout.decode("utf-8", "replace").strip().splitlines()
    return json.loads(lines[-1]) if lines else {}


TLC_JAVA_OPTS = "-Xss1g -Dtlc2.tool.queue.IStateQueue=StateDeque"


def _tlc(spec, cfg, metadir, env_extra, workers, timeout, extra_args=(), xmx="3g", deque=True):
    env = dict(os.environ)
    opts = "-Xss1g -Xmx%s" % xmx
    if deque:
        opts += " -Dtlc2.tool.queue.IStateQueue=StateDeque"
    env["JAVA_TOOL_OPTIONS"] = opts
    env.update(env_extra or {})
    shutil.rmtree(metadir, ignore_errors=True)
    cmd = ["timeout", str(timeout), "tlc", "-workers", str(workers), "-metadir", metadir, "-cleanup",
           "-noGenerateSpecTE", "-config", cfg] + list(extra_args) + [spec]
    t0 = time.time()
    r = subprocess.run(cmd, cwd=SPEC, env=env, stdout=subprocess.PIPE, stderr=subprocess.STDOUT, text=True)
    shutil.rmtree(metadir, ignore_errors=True)
    out = r.stdout
    if r.returncode == 124:
        raise ToolError("TLC timed out after %ss on %s" % (timeout, spec))
    return r.returncode, out, time.time() - t0


_RE_STATES = re.compile(r"(\d+) states generated, (\d+) distinct states found")
_RE_TUPLE = re.compile(r'<<\s*"([A-Z-]+)",(.*?)>>', re.S)


def parse_counts(out):
    m = None
    for m in _RE_STATES.finditer(out):
        pass
    if not m:
        return 0, 0
    return int(m.group(1)), int(m.group(2))


def parse_tuples(out):
    """All PrintT'ed tuples whose first element is an upper-case tag -> list of (tag, raw body).

    Bodies may contain nested << >> and { }, so brackets are matched, not regex-guessed."""
    res = []
    for m in re.finditer(r'<<\s*"([A-Z-]+)",', out):
        i = m.end()
        depth = 1
        while i < len(out) and depth > 0:
            if out.startswith("<<", i):
                depth += 1
                i += 2
            elif out.startswith(">>", i):
                depth -= 1
                i += 2
            else:
                i += 1
        res.append((m.group(1), out[m.end():i - 2]))
    return res


def parse_int_set(body):
    """Indices in a printed set: either {1, 2} or {<<1, "why">>, ...}. Returns {index: reason}."""
    i = body.find("{")
    j = body.rfind("}")
    if i < 0 or j < 0:
        return {}
    inner = body[i + 1:j]
    pairs = re.findall(r'<<\s*(\d+),\s*"([^"]*)"\s*>>', inner)
    if pairs:
        return {int(a): b for a, b in pairs}
    return {int(x): "" for x in re.findall(r"-?\d+", inner)}


def tlc_failed(out):
    """True if TLC reported an error (as opposed to completing)."""
    return ("Error:" in out) or ("Model checking completed. No error has been found." not in out
                                 and "Finished computing" not in out and "The number of states generated" not in out)


def tlc_trace(spec, trace, tag=None, timeout=1500, env_extra=None):
    """Validate one NDJSON trace with a Trace_*.tla spec.

    Returns dict(nrec, consumed, bad=set of 1-based event indices, generated, distinct, wall, output).
    """
    tag = tag or hashlib.sha1(trace.encode()).hexdigest()[:10]
    env = {"TRACE": trace}
    env.update(env_extra or {})
    rc, out, wall = _tlc(spec + ".tla", spec + ".cfg", os.path.join(WORK, "tlc_" + tag), env, 1, timeout)
    res = {"trace": trace, "wall": wall, "output": out, "bad": {}, "nrec": None, "consumed": None}
    res["generated"], res["distinct"] = parse_counts(out)
    for t, body in parse_tuples(out):
        if t == "TRACE-BAD":
            res["bad"] = parse_int_set(body)
        elif t == "TRACE-RESULT":
            nums = re.findall(r"-?\d+", body.split('"')[-1])
            res["nrec"], res["consumed"] = int(nums[0]), int(nums[1])
    if res["nrec"] is None:
        raise ToolError("TLC failed on %s with %s\n%s" % (trace, spec, out[-6000:]))
    # a TLC evaluation error (as opposed to a failed POSTCONDITION) is a tool error
    for seg in out.split("Error:")[1:]:
        if "ostcondition" not in seg[:300]:
            raise ToolError("TLC error on %s with %s\n%s" % (trace, spec, out[-6000:]))
    return res


def tlc_mc(spec, cfg=None, workers=8, timeout=1500, coverage=True, env_extra=None, xmx="8g", extra_args=()):
    """Model-check a bounded instance. Returns dict(ok, generated, distinct, output, violated, actions)."""
    cfg = cfg or spec + ".cfg"
    args = list(extra_args)
    if coverage:
        args = ["-coverage", "1"] + args
    rc, out, wall = _tlc(spec + ".tla", cfg, os.path.join(WORK, "p%d" % os.getpid(), "tlc_mc_" + os.path.basename(cfg).replace(".", "_")),
                         env_extra, workers, timeout, args, xmx=xmx, deque=False)
    gen, dist = parse_counts(out)
    ok = "Model checking completed. No error has been found." in out
    violated = re.findall(r"Error: (Invariant \S+ is violated|Action property \S+ is violated|Temporal properties were violated|Deadlock reached|Assumption .*? is false)", out)
    if not ok and not violated:
        raise ToolError("TLC failed on %s/%s\n%s" % (spec, cfg, out[-6000:]))
    actions = {}
    for m in re.finditer(r"<(\w+) line \d+, col \d+ to line \d+, col \d+ of module (\w+)(?: \([\d ]+\))?>: (\d+):(\d+)", out):
        actions[m.group(1)] = (int(m.group(3)), int(m.group(4)))
    return {"ok": ok, "generated": gen, "distinct": dist, "output": out, "violated": violated,
            "actions": actions, "wall": wall, "tuples": parse_tuples(out)}


def parallel(fn, items, n=8):
    with concurrent.futures.ThreadPoolExecutor(max_workers=n) as ex:
        return list(ex.map(fn, items))


def read_events(path, indices):
    """Fetch 1-based lines from an NDJSON file."""
    want = set(indices)
    got = {}
    if not want:
        return got
    hi = max(want)
    with open(path) as f:
        for i, line in enumerate(f, 1):
            if i in want:
                got[i] = json.loads(line)
            if i >= hi:
                break
    return got


def sample_lines(path, k=2):
    out = []
    with open(path) as f:
        for i, line in enumerate(f):
            if i >= k:
                break
            out.append(json.loads(line))
    return out


def load_findings():
    if not os.path.exists(FINDINGS):
        return []
    return json.load(open(FINDINGS)).get("findings", [])


class Check:
    """Accumulates what one check run covered and found, then writes evidence and the verdict."""

    def __init__(self, pid, level="model_checking"):
        self.pid = pid
        self.level = level
        self.tier = os.environ.get("VERIF_TIER", "quick")
        self.seed = int(os.environ.get("VERIF_SEED", "1") or 1)
        self.t0 = time.time()
        self.states = 0
        self.transitions = 0
        self.traces = 0
        self.evaluations = 0
        self.distinct = 0
        self.samples = []
        self.violations = []      # dicts: key, what, case
        self.assumptions = []
        self.extra = {}
        self.rule = ""
        self.unexercised = []

    def add_mc(self, res, name):
        self.states += res["distinct"]
        self.transitions += res["generated"]
        never = [a for a, (d, g) in res["actions"].items() if g == 0]
        if never:
            self.unexercised += ["%s:%s" % (name, a) for a in never]
        self.extra.setdefault("model_runs", []).append(
            {"model": name, "distinct_states": res["distinct"], "states_generated": res["generated"],
             "wall_s": round(res["wall"], 1), "ok": res["ok"]})
        if not res["ok"]:
            self.violations.append({"key": "spec:" + name, "what": "TLC reports %s in bounded model %s" % (res["violated"], name),
                                    "case": {"model": name, "tlc_tail": res["output"][-3000:]}})

    TRIVIAL_EVENTS = ("load", "loadfail", "loop", "stop", "init", "end", "read", "set")

    def add_trace(self, res, ntraces):
        self.states += res["distinct"]
        self.transitions += res["generated"]
        self.traces += ntraces
        self.count_file(res.get("trace"))

    def count_file(self, path):
        """Measure distinct non-trivial cases: distinct event lines (ids removed) that are not bookkeeping events."""
        if not path or not os.path.exists(path):
            return
        if not hasattr(self, "_seen"):
            self._seen = set()
        strip = re.compile(rb'"id":\s*("[^"]*"|\d+),?\s*')
        with open(path, "rb") as f:
            for line in f:
                m = re.search(rb'"ev":\s*"([a-z-]+)"', line)
                if m and m.group(1).decode() in self.TRIVIAL_EVENTS:
                    continue
                self._seen.add(hashlib.md5(strip.sub(b"", line)).digest())

    def violation(self, key, what, case):
        self.violations.append({"key": key, "what": what, "case": case})

    def finish(self):
        wall = time.time() - self.t0
        known = [f for f in load_findings() if f.get("property") == self.pid]
        known_keys = {f["key"]: f for f in known}
        new, old = [], {}
        for v in self.violations:
            if v["key"] in known_keys:
                old.setdefault(v["key"], []).append(v)
            else:
                new.append(v)
        if hasattr(self, "_seen") and self._seen:
            self.distinct = len(self._seen)
        cov = {
            "states": max(self.states, 0), "transitions": max(self.transitions, 0),
            "traces_validated_against_impl": self.traces,
            "evaluations": self.evaluations, "distinct_nontrivial": self.distinct,
            "rule": self.rule + " | evaluations = cases generated (sessions / texts / files / key sequences); distinct_nontrivial is MEASURED: the number of distinct recorded "
                    "event lines (case ids removed) that are not bookkeeping events (load, loop tick, stop, init, end, read, set)",
            "samples": self.samples[:6] or [{"note": "no sample recorded"}],
            "known_findings_seen": sorted(old.keys()),
            "unexercised_spec_actions": sorted(set(self.unexercised)),
        }
        cov.update(self.extra)
        ev = {"property_id": self.pid, "tier": self.tier, "seed": self.seed, "level": self.level,
              "coverage": cov, "assumptions": self.assumptions, "wall_s": round(wall, 1),
              "violations": len(new)}
        os.makedirs(EVID, exist_ok=True)
        with open(os.path.join(EVID, self.pid + ".json"), "w") as f:
            json.dump(ev, f, indent=1, default=str)
        for k in sorted(old):
            print("KNOWN-FINDING: property=%s %s (%d occurrence(s) this run)" % (self.pid, known_keys[k]["what"], len(old[k])))
        if new:
            os.makedirs(os.path.join(REPLAYS, self.pid), exist_ok=True)
            seen = set()
            for v in new:
                if v["key"] in seen:
                    continue
                seen.add(v["key"])
                blob = json.dumps(v["case"], sort_keys=True, default=str)
                h = hashlib.sha1(blob.encode()).hexdigest()[:12]
                path = os.path.join(REPLAYS, self.pid, h + ".json")
                with open(path, "w") as f:
                    json.dump({"property": self.pid, "key": v["key"], "what": v["what"], "case": v["case"]}, f, indent=1, default=str)
                n = sum(1 for x in new if x["key"] == v["key"])
                log("  %s  [%d occurrence(s)] %s" % (v["key"], n, v["what"]))
                print("VIOLATION property=%s replay=%s" % (self.pid, os.path.relpath(path, ROOT)))
            log("%s: %d violation(s) in %d class(es); %.1fs" % (self.pid, len(new), len(seen), wall))
            return 1
        log("%s: ok (%s; states=%d traces=%d evaluations=%d) %.1fs" % (self.pid, self.tier, self.states, self.traces, self.evaluations, wall))
        shutil.rmtree(os.path.join(WORK, "p%d" % os.getpid()), ignore_errors=True)
        return 0


def run_lace(args, stdin=b"", cwd=None, timeout=20, env_extra=None):
    """Run the real `lace` binary. Returns (exit code, stdout bytes, stderr bytes); code -1 = timeout, <0 = signal."""
    env = dict(os.environ)
    env["NO_COLOR"] = "1"
    env.update(env_extra or {})
    # a loaded machine must not turn into a verdict: a run that exceeds the limit is repeated once with a limit twelve
    # times longer; only a run that is still going then counts as "does not terminate" (code -1)
    for limit in (timeout, timeout * 12):
        try:
            r = subprocess.run([LACE_BIN] + [str(a) for a in args], input=stdin, stdout=subprocess.PIPE, stderr=subprocess.PIPE,
                               cwd=cwd or WORK, timeout=limit, env=env)
            return r.returncode, r.stdout, r.stderr
        except subprocess.TimeoutExpired:
            continue
    return -1, b"", b"timeout"


def chars(s):
    return list(s)
