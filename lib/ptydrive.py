"""Driving the real `lace` binary through a pseudo terminal (the paths the in-process key/input hooks bypass:
term.rs key decoding and tty input, Terminal::read_line_raw, the history file).  python3 stdlib only."""
import os
import pty
import re
import select
import signal
import time

KEYSEQ = {"enter": "\r", "backspace": "\x7f", "delete": "\x1b[3~", "left": "\x1b[D", "right": "\x1b[C",
          "up": "\x1b[A", "down": "\x1b[B", "ctrlleft": "\x1b[1;5D", "ctrlright": "\x1b[1;5C"}
PROMPT = re.compile(r'lace~ [^\x1b]*\x1b\[\d+G$')
HIST_NAME = "lace-debugger-history"


# the "CSI u" / "CSI 1;mod:kind X" encodings a terminal with the keyboard-enhancement protocol sends: kind 1 = press, 2 = auto-repeat of a held key,
# 3 = release.  Press and repeat are key presses to an editor; a release is nothing.
_CSI_FINAL = {"left": "D", "right": "C", "up": "A", "down": "B", "ctrlleft": "D", "ctrlright": "C"}
_CSI_CODE = {"enter": 13, "backspace": 127}


def key_bytes(k, kind=None):
    kind = kind or {"press": 1, "repeat": 2, "release": 3}.get(k.get("w"))
    if not kind:
        return (k["c"] if k["k"] == "char" else KEYSEQ[k["k"]]).encode("utf-8")
    if k["k"] == "char":
        return ("\x1b[%d;1:%du" % (ord(k["c"]), kind)).encode()
    if k["k"] in _CSI_CODE:
        return ("\x1b[%d;1:%du" % (_CSI_CODE[k["k"]], kind)).encode()
    if k["k"] == "delete":
        return ("\x1b[3;1:%d~" % kind).encode()
    return ("\x1b[1;%d:%d%s" % (5 if k["k"].startswith("ctrl") else 1, kind, _CSI_FINAL[k["k"]])).encode()


class Pty:
    def __init__(self, argv, env, cwd=None):
        self.out = b""
        self.pid, self.fd = pty.fork()
        if self.pid == 0:
            try:
                if cwd:
                    os.chdir(cwd)
                os.execve(argv[0], argv, env)
            finally:
                os._exit(127)

    def read_until(self, pred, quiet=0.25, limit=20.0):
        """collect output until pred(text) holds after `quiet` seconds of silence, or `limit` seconds passed; returns whether pred held"""
        t0 = time.time()
        while time.time() - t0 < limit:
            r, _, _ = select.select([self.fd], [], [], quiet)
            if r:
                try:
                    got = os.read(self.fd, 65536)
                except OSError:
                    return pred(self.text())
                if not got:
                    return pred(self.text())
                self.out += got
            elif pred(self.text()):
                return True
        return pred(self.text())

    def text(self):
        return self.out.decode("utf-8", "replace")

    def send(self, data):
        os.write(self.fd, data)

    def finish(self, grace=5.0):
        """wait for the process to end by itself (grace), else kill it; returns exit status or None if killed"""
        t0 = time.time()
        status = None
        while time.time() - t0 < grace:
            try:
                self.read_until(lambda t: False, quiet=0.1, limit=0.2)
            except OSError:
                pass
            pid, st = os.waitpid(self.pid, os.WNOHANG)
            if pid:
                status = os.waitstatus_to_exitcode(st)
                break
        if status is None:
            try:
                os.kill(self.pid, signal.SIGKILL)
                os.waitpid(self.pid, 0)
            except OSError:
                pass
        try:
            os.close(self.fd)
        except OSError:
            pass
        return status


def at_prompt(text):
    return PROMPT.search(text) is not None


def editor_session(lace, asm, cache_dir, init_hist, keys, mode="single", cols=0):
    """Type `keys` (list of key dicts) at the debugger prompt of a real tty session.
    mode: single = one key at a time (waiting for the redraw), burst = everything in one write.
    Returns dict(history=list of lines in the history file afterwards, panicked, prompt_seen, transcript)."""
    os.makedirs(cache_dir, exist_ok=True)
    hpath = os.path.join(cache_dir, HIST_NAME)
    with open(hpath, "w", encoding="utf-8") as f:
        for h in init_hist:
            f.write(h + "\n")
    env = dict(os.environ, NO_COLOR="1", XDG_CACHE_HOME=cache_dir, HOME=cache_dir, TERM="xterm")
    p = Pty([lace, "debug", "--minimal", asm], env)
    if cols:
        # give the terminal a size (a freshly opened pty reports 0 x 0)
        import fcntl
        import struct
        import termios
        fcntl.ioctl(p.fd, termios.TIOCSWINSZ, struct.pack("HHHH", 24, cols, 0, 0))
    seen = p.read_until(at_prompt, limit=30.0)
    if seen:
        if mode == "burst":
            p.send(b"".join(key_bytes(k) + (key_bytes(k, 3) if k.get("rel") else b"") for k in keys))
            p.read_until(at_prompt, quiet=0.4, limit=20.0)
        else:
            for k in keys:
                before = len(p.out)
                p.send(key_bytes(k))
                # every key is answered by a redraw of the prompt line
                p.read_until(lambda t: len(p.out) > before and at_prompt(t), quiet=0.15, limit=10.0)
                if k.get("rel"):
                    # the key goes up again: a release event, which is not a key press (nothing is redrawn)
                    p.send(key_bytes(k, 3))
                    p.read_until(at_prompt, quiet=0.1, limit=1.0)
    text = p.text()
    try:
        os.kill(p.pid, signal.SIGKILL)
    except OSError:
        pass
    p.finish(grace=1.0)
    try:
        hist = open(hpath, encoding="utf-8").read().split("\n")[:-1]
    except (OSError, UnicodeDecodeError):
        hist = None
    return {"history": hist, "panicked": "panicked" in text, "prompt_seen": seen, "transcript": text[-2000:]}


def tty_input_session(lace, args, typed, limit=20.0):
    """Run `lace <args>` with stdin/stdout on a pty and type `typed` (bytes) once the program is running; returns (status, text)."""
    env = dict(os.environ, NO_COLOR="1", TERM="xterm")
    p = Pty([lace] + list(args), env)
    p.read_until(lambda t: "Running" in t, quiet=0.2, limit=limit)
    for chunk in typed:
        p.send(chunk)
        p.read_until(lambda t: False, quiet=0.15, limit=0.3)
    st = p.finish(grace=limit)
    return st, p.text()
