"""Table from which bin/mkmanifest generates MANIFEST.json."""

NOTES = ("Every check = (A) TLC on a bounded instance of the TLA+ specification, plus (B)/(C) conformance of the real code "
         "against the same specification. exit 2 = tool error/timeout, never a verdict.")

NOT_APPLICABLE = {}

CHECKS = {
 "C02": {
  "text": "ISA!Exec (spec/ISA.tla) is the normative single-instruction semantics. TLC checks type/frame/stop properties on a bounded model (MC_ISA) "
          "and validates, with Trace_ISA.tla, one recorded execution of the real RunState::execute per instruction word (all 65,536) x planted boundary/random machine "
          "states x both feature-flag values, comparing all registers, PC, CC, the diff over all 65,536 words, output, consumed input and exit kind. "
          "Bounded-exhaustive in the instruction word, sampled in the machine state.",
  "note": "Trusted: TLC, the TLA+ transcription of the ISA (cross-checked by the independent Frame/DestRegs formulation in MC_ISA), the cfg-gated accessors in src/runtime.rs. "
          "States are sampled (boundary-biased), not exhaustive. RTI outside the claim.",
  "technique": "TLA+ spec of the ISA + TLC trace validation of recorded single-step executions (all 65,536 words)",
 },
}
