"""Table from which bin/mkmanifest generates MANIFEST.json."""

NOTES = ("Every check = (A) TLC on a bounded instance of the TLA+ specification, plus (B)/(C) conformance of the real code "
         "against the same specification. exit 2 = tool error/timeout, never a verdict.")

NOT_APPLICABLE = {}

CHECKS = {
 "C02": {
  "text": "ISA!Exec (spec/ISA.tla) is the normative single-instruction semantics. TLC checks type/frame/stop properties on a bounded model (MC_ISA) "
          "and validates, with Trace_ISA.tla, one recorded execution of the real RunState::execute per instruction word (all 65,536) x planted boundary/random machine "
          "states x both feature-flag values, comparing all registers, PC, CC, the diff over all 65,536 words, output, consumed input and exit kind. "
          "Bounded-exhaustive in the instruction word, sampled in the machine state.",
  "note": "Trusted: TLC, the TLA+ transcription of the ISA (cross-checked by the independent Frame/DestRegs formulation in MC_ISA), the cfg-gated accessors in src/runtime.rs. "
          "States are sampled (boundary-biased), not exhaustive. RTI outside the claim.",
  "technique": "TLA+ spec of the ISA + TLC trace validation of recorded single-step executions (all 65,536 words)",
 },
 "C01": {
  "text": "Assembler.tla gives the declarative image (ISA bit layouts, PC-relative equation, directive expansion) of an abstract syntax tree. TLC (A) checks that the "
          "two-pass pipeline model (early fill / backpatch / emit with the code's modular arithmetic) refines it for all programs over a universe of item shapes "
          "(MC_Assembler: Refines, NoSpill) and (C) validates with Trace_Asm.tla the real pipeline's output for every instruction form x every register x every in-range field value, "
          "label placements at every field boundary, and random multi-label programs, each rendered in several seeded layouts/spellings.",
  "note": "Trusted: TLC, the TLA+ transcription of the encodings, the renderer (its output is the test input; a renderer bug shows as a false VIOLATION, never as a miss). "
          "Field values exhaustive; layouts, label programs and multi-statement programs sampled.",
  "technique": "TLA+ spec of assembly (declarative image + pipeline refinement in TLC) + trace validation of the real assembler's output",
 },
 "C04": {
  "text": "Assembler!Accepts is the acceptance predicate (field ranges, label rules, single .orig). TLC checks on MC_Assembler that the pipeline's verdict equals Accepts for all bounded programs "
          "under both flag values and that no accepted word spills (NoSpill); Trace_Asm.tla validates the real verdict and image for the boundary matrix (min-1..max+1, 16-bit extremes, alias spellings, "
          "label distances +-2^(n-1) and beyond, label/.orig errors).",
  "note": "Trusted: TLC, the transcription of the ranges from the property statement. J1 (alias literals) is free. Token-level malformed statements are covered by C05 (totality) only.",
  "technique": "TLA+ acceptance predicate + pipeline refinement in TLC + trace validation of real verdicts on a boundary matrix",
 },
}
