"""Table from which bin/mkmanifest generates MANIFEST.json."""

NOTES = ("Every check = (A) TLC on a bounded instance of the TLA+ specification, plus (B)/(C) conformance of the real code "
         "against the same specification. exit 2 = tool error/timeout, never a verdict.")

NOT_APPLICABLE = {}

CHECKS = {
 "C02": {
  "text": "ISA!Exec (spec/ISA.tla) is the normative single-instruction semantics. TLC checks type/frame/stop properties on a bounded model (MC_ISA) "
          "and validates, with Trace_ISA.tla, one recorded execution of the real RunState::execute per instruction word (all 65,536) x planted boundary/random machine "
          "states x both feature-flag values, comparing all registers, PC, CC, the diff over all 65,536 words, output, consumed input and exit kind. "
          "Bounded-exhaustive in the instruction word, sampled in the machine state.",
  "note": "Trusted: TLC, the TLA+ transcription of the ISA (cross-checked by the independent Frame/DestRegs formulation in MC_ISA), the cfg-gated accessors in src/runtime.rs. "
          "States are sampled (boundary-biased), not exhaustive. RTI outside the claim.",
  "technique": "TLA+ spec of the ISA + TLC trace validation of recorded single-step executions (all 65,536 words)",
 },
 "C01": {
  "text": "Assembler.tla gives the declarative image (ISA bit layouts, PC-relative equation, directive expansion) of an abstract syntax tree. TLC (A) checks that the "
          "two-pass pipeline model (early fill / backpatch / emit with the code's modular arithmetic) refines it for all programs over a universe of item shapes "
          "(MC_Assembler: Refines, NoSpill) and (C) validates with Trace_Asm.tla the real pipeline's output for every instruction form x every register x every in-range field value, "
          "label placements at every field boundary, and random multi-label programs, each rendered in several seeded layouts/spellings." + " Lexer.tla (character-level lexer: literal spellings #dec/xHEX/0xHEX/signs/two's-complement reading, keywords in any case, the register rule) is validated against the real raw token stream (Trace_Lex) for every chunk sequence <= 3 over 40 spellings and seeded longer texts; .stringz contents are exhaustive <= 3 over escape-relevant characters; out-of-range programs are fed too (an accepted source must have the right image).",
  "note": "Trusted: TLC, the TLA+ transcription of the encodings, the renderer (its output is the test input; a renderer bug shows as a false VIOLATION, never as a miss). "
          "Field values exhaustive; layouts, label programs and multi-statement programs sampled.",
  "technique": "TLA+ spec of assembly (declarative image + pipeline refinement in TLC) + trace validation of the real assembler's output",
 },
 "C04": {
  "text": "Assembler!Accepts is the acceptance predicate (field ranges, label rules, single .orig). TLC checks on MC_Assembler that the pipeline's verdict equals Accepts for all bounded programs "
          "under both flag values and that no accepted word spills (NoSpill); Trace_Asm.tla validates the real verdict and image for the boundary matrix (min-1..max+1, 16-bit extremes, alias spellings, "
          "label distances +-2^(n-1) and beyond, label/.orig errors).",
  "note": "Trusted: TLC, the transcription of the ranges from the property statement. J1 (alias literals) is free. Token-level malformed statements are covered by C05 (totality) only.",
  "technique": "TLA+ acceptance predicate + pipeline refinement in TLC + trace validation of real verdicts on a boundary matrix",
 },
 "C03": {
  "text": "Machine.tla models from_raw + the run loop (one action per branch, in the code's order). TLC checks LoadOK / FetchInBounds / StopKinds / ExcMeans on all images up to N words over a representative word set at boundary origins (MC_Machine), and Trace_Debug.tla validates recorded runs of the real RunEnvironment (catalogue, seeded structured programs, arbitrary tiny images) event by event: load state, each fetch address/word/state diff/output/input, stop kind and exit code, loader refusals.",
  "note": "Trusted: TLC; the cfg-gated hooks (state samples at loop top / after each command / after each instruction, with memory diffs computed over all 65,536 words; stdout/stderr tee; typed unwind instead of process exit); the harness's post-processing of hook events into load/loop/cmd/exec/stop events. Programs and scripts are sampled (catalogue + seeded), bounded by a step budget; J3 (`step` over a recursive call) is a listed known finding.",
  "technique": 'TLA+ machine spec model-checked on bounded images + trace validation of real runs',
 },
 "C09": {
  "text": "Debugger.tla wraps Machine.tla. TLC checks on MC_Debugger (catalogue x all non-mutating scripts <= K, then end of input) that the final machine equals the reference machine's (Transparent) and that HALT never executes while attached; Trace_Debug.tla validates real sessions made of non-mutating commands with arbitrary arguments and additionally compares final registers/PC/CC/all memory/output/exit kind with a run of the same image without debugger." + " Direction (B): Gen_Debugger.tla makes TLC print every finished behaviour of the bounded model (program tree, script, final registers/PC/CC/memory, executed-instruction count); each is replayed through the real assembler + debugger and compared.",
  "note": "Trusted: TLC; the cfg-gated hooks (state samples at loop top / after each command / after each instruction, with memory diffs computed over all 65,536 words; stdout/stderr tee; typed unwind instead of process exit); the harness's post-processing of hook events into load/loop/cmd/exec/stop events. Programs and scripts are sampled (catalogue + seeded), bounded by a step budget; J3 (`step` over a recursive call) is a listed known finding.",
  "technique": 'TLA+ debugger spec: refinement-style invariant in TLC + trace validation of real sessions with reference-run comparison',
 },
 "C10": {
  "text": 'Status machine of next_action as Debugger!Arm/DLoopTop/DCmd/DExec. TLC checks StepCounts / StepNoOvershoot / NoHaltWhileAttached on all scripts <= K (MC_Debugger); Trace_Debug.tla validates real sessions (random stepping scripts, all scripts up to a bounded length over the stepping alphabet on the catalogue, hand-written scenarios) including the exact pause tags and the machine state after every command.' + " Direction (B): Gen_Debugger.tla makes TLC print every finished behaviour of the bounded model (program tree, script, final registers/PC/CC/memory, executed-instruction count); each is replayed through the real assembler + debugger and compared.",
  "note": "Trusted: TLC; the cfg-gated hooks (state samples at loop top / after each command / after each instruction, with memory diffs computed over all 65,536 words; stdout/stderr tee; typed unwind instead of process exit); the harness's post-processing of hook events into load/loop/cmd/exec/stop events. Programs and scripts are sampled (catalogue + seeded), bounded by a step budget; J3 (`step` over a recursive call) is a listed known finding.",
  "technique": 'TLA+ debugger spec model-checked + trace validation of real stepping sessions',
 },
 "C11": {
  "text": "bps is a set in the spec; DLoopTop/DExec carry the pause/re-arm rule. TLC checks BreakpointsRespected and BpsInUserSpace on MC_Debugger; Trace_Debug.tla validates real sessions with .break in every position, run-time add/remove/list by address/label/PC offset, loops revisiting breakpoints, every resuming command; the observed breakpoint list must be sorted, duplicate-free and equal to the spec's set after every command.",
  "note": "Trusted: TLC; the cfg-gated hooks (state samples at loop top / after each command / after each instruction, with memory diffs computed over all 65,536 words; stdout/stderr tee; typed unwind instead of process exit); the harness's post-processing of hook events into load/loop/cmd/exec/stop events. Programs and scripts are sampled (catalogue + seeded), bounded by a step budget; J3 (`step` over a recursive call) is a listed known finding.",
  "technique": 'TLA+ debugger spec model-checked + trace validation of real breakpoint sessions',
 },
 "C12": {
  "text": '`initial` is written by load only (InitialFrozen) and `reset` makes the machine equal it (ResetRestores), checked by TLC on MC_Debugger; Trace_Debug.tla validates real histories (execution, move, goto, eval, self-modifying stores, stores below the origin and into the stack) followed by reset: the observed state, diffed over all 65,536 words, must equal the load state, and the run that follows is validated like a fresh one.' + " Direction (B): Gen_Debugger.tla makes TLC print every finished behaviour of the bounded model (program tree, script, final registers/PC/CC/memory, executed-instruction count); each is replayed through the real assembler + debugger and compared.",
  "note": "Trusted: TLC; the cfg-gated hooks (state samples at loop top / after each command / after each instruction, with memory diffs computed over all 65,536 words; stdout/stderr tee; typed unwind instead of process exit); the harness's post-processing of hook events into load/loop/cmd/exec/stop events. Programs and scripts are sampled (catalogue + seeded), bounded by a step budget; J3 (`step` over a recursive call) is a listed known finding.",
  "technique": 'TLA+ debugger spec model-checked + trace validation with full-memory diff after reset',
 },
 "C13": {
  "text": 'Debugger!Resolve/ResolveUser do location arithmetic over the integers; TLC checks Confined (a command changes at most the word/register it names, refusals and read-only commands change nothing) on MC_Debugger; Trace_Debug.tla validates real move/goto/break/print/assembly commands on absolute, label+-offset and ^offset locations at the window and signed-16-bit boundaries with full state comparison.',
  "note": "Trusted: TLC; the cfg-gated hooks (state samples at loop top / after each command / after each instruction, with memory diffs computed over all 65,536 words; stdout/stderr tee; typed unwind instead of process exit); the harness's post-processing of hook events into load/loop/cmd/exec/stop events. Programs and scripts are sampled (catalogue + seeded), bounded by a step budget; J3 (`step` over a recursive call) is a listed known finding.",
  "technique": 'TLA+ debugger spec model-checked + trace validation of a location matrix',
 },
 "C15": {
  "text": 'Debugger!CmdResult for eval = Assembler!EncodeInstr + ISA!Exec at the current PC with label operands meaning label addresses; refusal classes change nothing. Trace_Debug.tla validates real eval commands of every form at varying PCs plus refused and malformed texts.',
  "note": "Trusted: TLC; the cfg-gated hooks (state samples at loop top / after each command / after each instruction, with memory diffs computed over all 65,536 words; stdout/stderr tee; typed unwind instead of process exit); the harness's post-processing of hook events into load/loop/cmd/exec/stop events. Programs and scripts are sampled (catalogue + seeded), bounded by a step budget; J3 (`step` over a recursive call) is a listed known finding.",
  "technique": 'TLA+ spec of eval (assembler + ISA composed) + trace validation',
 },
 "C16": {
  "text": 'Ghost counters iter/nExec/nCmd: ProgressBound is an invariant of MC_Debugger and is evaluated at the end of every validated real session; Terminates (<>(run # running)) is checked by TLC under weak fairness for all non-mutating scripts; real sessions issue every resuming command at PC = 0xFFFF / below origin / >= 0xFE00 / on HALT and must never exhaust the step budget.' + " Direction (B): Gen_Debugger.tla makes TLC print every finished behaviour of the bounded model (program tree, script, final registers/PC/CC/memory, executed-instruction count); each is replayed through the real assembler + debugger and compared.",
  "note": "Trusted: TLC; the cfg-gated hooks (state samples at loop top / after each command / after each instruction, with memory diffs computed over all 65,536 words; stdout/stderr tee; typed unwind instead of process exit); the harness's post-processing of hook events into load/loop/cmd/exec/stop events. Programs and scripts are sampled (catalogue + seeded), bounded by a step budget; J3 (`step` over a recursive call) is a listed known finding.",
  "technique": 'TLA+ debugger spec: progress invariant + liveness under fairness in TLC, trace validation with step budget',
 },
 "C06": {
  "category": 'model_checking',
  "text": "Trace_Cli.tla states the object-file format (ObjectBytes = big-endian [origin|0x3000] ++ Assembler!Image), the loader's acceptance (LoaderAccepts, also an invariant of MC_Machine's Init) and run-equivalence of source and object file; it validates observations of the real binary: compiled bytes of seeded programs, stdout+exit of `run x.asm` vs `run x.lc3` for executable programs with input, and refusals for files of every length parity around the top of memory." + " Trace_Cli!DispatchOk also covers sub-command / file-extension dispatch (run, bare path, debug x asm/lc3/obj/other/none/missing).",
  "note": 'Trusted: TLC, the real `lace` binary built from /repo into /verif/target/lace (no cfg), Python subprocess plumbing, strace for the system-call order (C08; the check degrades to before/after bytes if ptrace is unavailable and says so in the evidence). Programs sampled (seeded) + boundary matrices.',
  "technique": 'TLA+ spec of object format/loader + TLC validation of real CLI observations',
 },
 "C07": {
  "category": 'model_checking',
  "text": "Trace_Cli!AgreeOk: the verdicts of `lace check`, `lace compile`, `lace run` under each flag value must all equal Assembler!Accepts (which MC_Assembler shows equal to the pipeline's verdict incl. the emission-time range check) and none may panic; validated for the C04 boundary matrix, out-of-range label references at every statement position for every PC-relative instruction, stack-mnemonic programs and the catalogue." + " Trace_Cli!WatchOk validates real `lace watch` re-checks (file rewritten under a running watcher, with and without -f stack; an unobserved re-check is recorded, never counted).",
  "note": 'Trusted: TLC, the real `lace` binary built from /repo into /verif/target/lace (no cfg), Python subprocess plumbing, strace for the system-call order (C08; the check degrades to before/after bytes if ptrace is unavailable and says so in the evidence). Programs sampled (seeded) + boundary matrices.',
  "technique": 'TLA+ acceptance predicate + TLC validation of check/compile/run verdict triples of the real binary',
 },
 "C08": {
  "category": 'fault_enumeration',
  "text": 'Trace_Cli!AtomicOk over an enumeration of fault points: emission failure at each statement position x destination {absent, existing, /dev/full, missing directory}; exit 0 => destination = ObjectBytes, exit != 0 => destination unchanged, no O_CREAT/O_TRUNC open of the destination before assembly succeeded (strace).',
  "note": 'Trusted: TLC, the real `lace` binary built from /repo into /verif/target/lace (no cfg), Python subprocess plumbing, strace for the system-call order (C08; the check degrades to before/after bytes if ptrace is unavailable and says so in the evidence). Programs sampled (seeded) + boundary matrices.',
  "technique": 'fault enumeration on the real binary under strace, decided by TLC against the TLA+ all-or-nothing predicate',
 },
 "C14": {
  "category": 'model_checking',
  "text": "CmdLang.tla is the command language: integer grammar, register / ^offset / label+-offset, argument positions with the naive pre-check, command names and aliases, line splitting, transports. TLC checks exclusivity of argument kinds, soundness of the pre-check, value ranges and transport equality for all tokens <= L and scripts <= S (MC_CmdLang); Trace_Debug.tla parses every recorded raw command line with CmdLang!ParseLine and requires the real session to show exactly that command's effect and output - for EVERY token <= 3 (4 in thorough) over the 16-character alphabet in three argument positions, all names/aliases/misspellings in three cases, seeded longer tokens; Trace_Cli validates --command/stdin/split delivery on the real binary.",
  "note": 'Trusted: TLC, the hooks, the transcription of the grammar from help.txt/doc comments. Tokens exhaustive up to the bound, longer ones sampled. `sudo` easter egg is a listed known finding.',
  "technique": 'TLA+ grammar spec exhaustively model-checked + trace validation of real command effects',
 },
 "C18": {
  "category": 'model_checking',
  "text": 'Gate in three places of the spec: Assembler!ItemOk (mnemonics need the flag), ISA!ExecStack (opcode 0xD without the flag = exit 1, no state change; MC_ISA Stops), Debugger (step out refusal). Trace_Cli!GateOk/FeatValid validate the real binary (refusal naming the feature in any letter case and in label position, identical image/stdout/exit for programs not using the extension under both flag values, -f value grammar); Trace_Debug validates in-process runs with the flag flipped and raw 0xD words.' + " Lexer.tla carries the gate at token level (IdentKind): the real token stream is validated under both flag values for chunk sequences containing the four mnemonics in several letter cases, also directly followed by ':' .",
  "note": 'Trusted: TLC, the real `lace` binary built from /repo into /verif/target/lace (no cfg), Python subprocess plumbing, strace for the system-call order (C08; the check degrades to before/after bytes if ptrace is unavailable and says so in the evidence). Programs sampled (seeded) + boundary matrices.',
  "technique": 'TLA+ specs with the flag as a parameter, model-checked, + TLC validation of CLI and in-process observations under both flag values',
 },
 "C05": {
  "text": "TokModel.tla is the assembler front end (directive preprocessing + statement parser) as a total transition system over 22 token kinds; TLC checks every sequence up to L has a verdict and the preprocessing bound (MC_TokModel). Trace_Tok.tla validates the real assembler on EVERY token-kind sequence up to L (verdict = TokModel!TokAccepts, one test per transition of the model), every string up to M over the lexer's character classes incl. multi-byte characters, mutated programs and size extremes: result is Ok or an Err whose diagnostic renders and whose spans lie inside the source; a panic is an unexplained event." + " Trace_Lex additionally validates the raw token stream of EVERY string <= 3 (4 in thorough) over 24 lexer-relevant characters against Lexer!Lex; a rawstrings family covers every .stringz body <= 4 over a \ \" n é 😀 space.",
  "note": 'Trusted: TLC, catch_unwind-based panic observation in the harness (dev profile: overflow checks on). Non-termination would be a harness timeout (tool error). Memory safety of unsafe code is out of scope.',
  "technique": 'TLA+ total-transition-system model of the front end + exhaustive bounded replay of its transitions into the real assembler',
 },
 "C17": {
  "text": 'Assembler!Lines/Sym give label lines; the renderer records the text of every statement it wrote; Debugger!CmdResult for `assembly` returns texts[address - origin] (nothing where there is no statement) and label locations resolve to origin + line - 1 + offset. Trace_Debug.tla validates real debugger sessions that query every address from origin-1 to one past the image and every label of arbitrary rendered programs.',
  "note": "Trusted: TLC, the hooks, the renderer's record of statement texts (an error there shows as a false VIOLATION, not a miss).",
  "technique": 'TLA+ spec of statement spans / label addresses + trace validation of `assembly`, `goto`, `print`, `break add` output on rendered programs',
 },
 "C19": {
  "text": 'MC_Session.tla models the symbol table across assemblies in one thread: with ResetState between, the k-th result equals the fresh result (Pure); without it TLC finds the stale-table counterexample (sanity, required by the check). Trace_Asm.tla validates sequences of valid / lexer-failing / late-failing / label-sharing sources assembled on ONE thread with reset_state() in between, twice, against both Assembler.tla and a fresh-thread assembly of the same text (verdict, origin, words, rendered diagnostic).',
  "note": 'Trusted: TLC, thread-local isolation of a fresh thread as the reference. hotwatch event delivery is not driven.',
  "technique": 'TLA+ model of global assembler state across assemblies + trace validation of same-thread sequences against spec and fresh-thread results',
 },
 "C20": {
  "text": "Editor.tla is the reference line editor (character-indexed buffer, history focus/copy rules, Vim-like word motions, ';' splitting). TLC checks CursorInside/IndexInside for ALL key sequences keeping the line <= N characters (MC_Editor); Trace_Editor.tla validates the real Terminal fed through the injected key source: every sequence of L keys over 22 keys (incl. 2-, 3- and 4-byte characters) after seeded prefixes from three histories, plus random 20-200 key sequences - buffer, focused line, cursor, history index after every key and every command handed out on Enter.",
  "note": 'Trusted: TLC, the cfg-gated key source and Terminal constructor (no TTY / history file). term::read_key and prompt drawing are bypassed.',
  "technique": 'TLA+ reference editor model-checked for unbounded key sequences on a bounded buffer + trace validation of the real editor per key',
 },
}

# additions made after the third round of seeded changes (see DESIGN 11.6)
_ADD = {
 "C01": "Also: .blkw counts around and above 2^15 written in decimal and in seeded spellings (images recorded with zero runs squeezed, expanded again by Trace_Asm!WordsOf).",
 "C04": "Also: a second .orig with the SAME value in any spelling, and a label defined twice at the same address (through .break / .orig).",
 "C05": "Also: the line counter at its last values (65,532..65,535 preceding words) followed by each kind of statement.",
 "C06": "The destination of compile is absent, shorter or much longer than the new object (the file must be exactly the object either way); program output is also compared with and without --minimal.",
 "C07": "Also: the SMALLEST programs around each field boundary (label on the first, reference on the last statement and vice versa), images ending just below/at/above the top of memory, and a real `lace watch` session "
        "whose successive texts fail in different stages and define the same labels again (each re-check's verdict must be that of Assembler!Accepts).",
 "C08": "Compile.tla states the protocol as a transition system over system-call events with a fault at every fallible step; TLC (MC_Compile) checks AllOrNothing/NoLitter on it and must reject the two earlier designs "
        "(create-then-write; fatal progress messages) kept as configurations. Fault kinds added: a regular destination that cannot be written (RLIMIT_FSIZE = 0) and a stdout that stops accepting data after the first message; "
        "the strace log of every run is replayed through Compile!Step (drift is reported in the evidence, not as a violation). Also: destination names that are not valid UTF-8 or long with multi-byte characters, and a stdout that accepts no data (/dev/full): the outcome must still be one of the two the property allows.",
 "C09": "Also at the command line: `lace run p` against `lace debug p --command <non-mutating script ending in quit>` with the program's input on stdin (Trace_Cli!DbgPairOk: same stdout and same exit status).",
 "C14": "Transport events also count register dumps, so that a lost or invented command without echo is visible.",
 "C15": "Malformed eval texts are derived systematically from well-formed instructions: one operand missing, one token too many (registers, literals, strings, labels, directives incl. .end), one operand of the wrong kind.",
 "C16": "A session whose thread does not come back within a wall-clock limit is recorded as a `hang` event, which Trace_Debug classifies as no-progress (a spin where no hook fires is still a verdict, not a tool error).",
 "C19": "Sequences also contain free-form sources: any subset of the shared names defined at random lines and referenced backward, forward, by themselves or without definition.",
}
# additions made after the fourth round (observations of the real binary in environments the hooks bypass)
_ADD4 = {
 "C02": "Real binary: GETC fed from a pseudo terminal (multi-byte keys), a PUSH/POP program under every spelling of -f, a stepped program reading input from the stdin its commands arrive on.",
 "C03": "Real binary: GETC from a pseudo terminal; an object file delivered through a named pipe.",
 "C05": "Real binary: size extremes (60,000 comment lines, 200,000 empty comments, 30,000 labels, a 2 MB comment) must end with exit 0/1; bare all-digit tokens after directives.",
 "C06": "Real binary: object files through a named pipe; images that jump to the word behind themselves must stop on the implicit HALT.",
 "C07": "Sources that are not valid UTF-8 (all three commands must refuse); two identical references in a row at the edge of a field; every watch re-check's warnings against a fresh `lace check`.",
 "C08": "Fault kinds added: symbolic-link destinations (writable / not), names covering every byte alignment of 1- to 4-byte characters, a stdout pipe whose reader leaves after the first message.",
 "C09": "Real binary: a 154,000-instruction loop under one `continue`, inspection commands with hundreds of surplus arguments, scripts on stdin with the program's input interleaved.",
 "C10": "Catalogue: HALT written as xF125; real binary: stepping a program whose input arrives on the same stdin as the commands.",
 "C11": "The load event carries the debugger's real initial breakpoints (compared with origin + Assembler!Breaks; .break before .orig); scenarios: one-instruction loops resumed with every resuming command incl. step out, break add/remove followed by reset.",
 "C12": "Scenarios: only the condition code changed before reset, a store to xFFFF; real binary: `reset` as last command on stdin with and without a line break.",
 "C13": "Catalogue programs with labels that differ only in letter case and with images straddling 0x8000 / 0xFE00.",
 "C14": "Look-alike letters (KELVIN SIGN, LONG S) in every name, TAB / NBSP / U+3000 next to tokens, argument lists of 250-1000 tokens; scripts resuming a program that reads input (xport).",
 "C15": "Scenario fargap: label operands at and beyond the reach of each field (only forms that must be refused for CALL/JSR).",
 "C16": "Real binary: finite scripts with command streams that end unusually or cannot be read (directory as stdin, closed stdin, no final line break, NUL, CR only).",
 "C17": "Rows of the non-minimal breakpoint table against Trace_Cli!CellOf; operands continued on the next line; labels differing only in case.",
 "C18": "Real binary: a raw 0xD word reached while stdout is a pipe whose reader has left (exit 1, feature named).",
 "C19": "Case variants of the shared names; one real `lace watch` session (verdict and warnings of every re-check against a fresh `lace check`).",
 "C20": "The same editor through the REAL terminal path: keys typed into a pseudo terminal one at a time and in bursts, a 1,203-line history file; Trace_Editor replays the keys blind and compares the history file. NBSP in the alphabet.",
}
# fifth round
_ADD5 = {
 "C02": "PUTS/PUTSP strings with an ESC and characters behind it (D9 drops the ESC alone).",
 "C03": "Real binary: input from a pipe while stdout is a pseudo terminal; an object file and its source both run with --minimal (REG, ESC).",
 "C04": "Literal PC offsets that point at the words just before the image, on statements 1-4.",
 "C05": "The line counter around 2^15 followed by literal offsets; digit runs beyond u32/u64.",
 "C06": "Destinations with a second hard link; a FIFO fed in pieces of odd length; images covering xFDFF from origin 0 with and without -f stack.",
 "C07": "Images running past xFFFF with an out-of-range reference beyond it; byte order mark, NUL and ^Z in sources; the watch session starts on a file that already defines the labels.",
 "C08": "Fault kinds hardlink / hardlink-fsize / absent-ptygone; mixed-width names long enough for any cut-off.",
 "C09": "ESC [ 1 m X written one character per OUT with debugger text containing m in between.",
 "C11": "Labels shaped like registers or literals with an underscore (r1_loop, R7_SAVE, x30_05, b_101).",
 "C12": "Scenario: breakpoint on the second word revisited after reset / goto.",
 "C14": "Blank followed by TAB/NBSP before an argument; CmdLang trims the rest of a line like str::trim.",
 "C15": "Literal PC-relative operands outside the field (to be refused wherever the PC is); directives as eval text.",
 "C16": "Real terminal: typed lines holding one to four commands, then quit: the process must end.",
 "C17": "Scenario biggap (labels 33,000 words behind the origin); register/literal-shaped labels.",
 "C18": "The four mnemonics only after .end; labels named sp/SP/fp; `eval <stack mnemonic>` at the command line (stderr must name the feature, R7 must not move).",
 "C19": "Sources with other origins and emit-time failures in the sequences; a text that warns and then fails followed by a clean one in the watch session.",
 "C20": "Typed lines with several `;`; a pseudo terminal with a 40-column window and a line longer than it.",
}
# additions of the seventh round
_ADD7 = {
 "C03": "Catalogue program `putswrap`: PUTS and PUTSP over a string that starts at xFFFF and goes on at x0000.",
 "C12": "Scenario programs `stlow` / `sthigh`: a store below the origin / into xFE06, registers and PC put back by hand, then reset: all 65,536 words must be the load state.",
 "C14": "Transport scripts hold one character from every class of UTF-8 lead byte (C2, D0, DF, E0, ED, EF, F0, F1, F4).",
 "C16": "Real terminal in ten history-file environments (regular, named pipe, directory, dangling link, link to a pipe, non-UTF-8 bytes, no final newline, read-only, cache directory a file / missing): the first prompt must appear and `step`, `quit` must end the session.",
 "C20": "Pseudo-terminal sessions also in the keyboard-enhancement encodings (CSI press / auto-repeat / release events); Trace_Editor!TBlindWire states that press and repeat are key presses and a release is nothing.",
}
_ADD8 = {
 "C05": "Also: every pair of the lexer's boundary spellings (x-8000, x-8001, x10000, #65535, #65536, 0x-2, r8, an unterminated string ...) through the real lexer against Lexer!Lex.",
 "C09": "Command-line pairs also WITHOUT --minimal on sources whose long lines hold multi-byte characters around the columns the debugger's tables cut at (break list, assembly, registers, help): stdout and exit status must equal the plain run's.",
 "C15": "Scenario: `eval rets` at the entry of a routine a real CALL entered (the popped address is determined; no link value is written).",
}
for _k, _v in _ADD8.items():
    _ADD[_k] = (_ADD.get(_k, "") + " " + _v).strip()
for _k, _v in _ADD7.items():
    _ADD[_k] = (_ADD.get(_k, "") + " " + _v).strip()
for _k, _v in _ADD5.items():
    _ADD[_k] = (_ADD.get(_k, "") + " " + _v).strip()
for _k, _v in _ADD4.items():
    _ADD[_k] = (_ADD.get(_k, "") + " " + _v).strip()
for _k, _v in _ADD.items():
    CHECKS[_k]["text"] += " " + _v
