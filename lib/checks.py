"""Per-property checks. Each check_<ID>(replay) returns the process exit code."""
import json
import os

import vlib
from vlib import Check, WORK, harness, tlc_trace, tlc_mc, parallel, read_events

OPNAMES = ["BR", "ADD", "LD", "ST", "JSR", "AND", "LDR", "STR", "RTI", "NOT", "LDI", "STI", "JMP", "STACK", "LEA", "TRAP"]


def _wpath(name):
    os.makedirs(WORK, exist_ok=True)
    return os.path.join(WORK, name)


# --------------------------------------------------------------------------------------------
# C02  every instruction word executes as the ISA prescribes
# --------------------------------------------------------------------------------------------

def _c02_key(exec_ev):
    op = exec_ev["instr"] >> 12
    name = OPNAMES[op]
    if op == 15:
        name += "x%02x" % (exec_ev["instr"] & 0xFF) if 0x20 <= (exec_ev["instr"] & 0xFF) <= 0x27 else "-unknown"
    if op == 13:
        name = ["POP", "PUSH", "RETS", "CALL"][(exec_ev["instr"] >> 10) & 3]
    if op == 4:
        name = "JSR" if exec_ev["instr"] & 0x800 else "JSRR"
    if exec_ev["kind"] == "panic":
        return "%s:panic:%s" % (name, exec_ev["msg"].split(" @ ")[0][:60])
    if exec_ev["kind"] == "exit":
        return "%s:exit%d" % (name, exec_ev["code"])
    return "%s:wrong-result" % name


def _c02_validate(chk, traces):
    def one(t):
        return tlc_trace("Trace_ISA", t)
    results = parallel(one, traces, 8)
    for t, res in zip(traces, results):
        chk.add_trace(res, res["nrec"] // 2)
        chk.evaluations += res["nrec"] // 2
        if res["consumed"] != res["nrec"]:
            raise vlib.ToolError("Trace_ISA consumed %s of %s events of %s" % (res["consumed"], res["nrec"], t))
        if res["bad"]:
            idx = set(res["bad"]) | set(i - 1 for i in res["bad"])
            evs = read_events(t, idx)
            for i in sorted(res["bad"]):
                ex = evs[i]
                chk.violation(_c02_key(ex),
                              "instruction 0x%04x: observed %s, ISA model disagrees" % (ex["instr"], ex["kind"] + (" " + ex["msg"] if ex["msg"] else "")),
                              {"family": "isa", "events": [evs[i - 1], ex]})
    return results


def check_C02(replay=None):
    chk = Check("C02")
    chk.rule = ("case = (instruction word, planted machine state, stack flag); all 65,536 words x S seeded states x both flag values; "
                "the real RunState::execute runs on the planted state and Trace_ISA.tla (ISA!Exec) must explain registers, PC, CC, the diff over all "
                "65,536 memory words, output, consumed input and the way it ended; distinct = distinct (word, flag, state) triples")
    chk.assumptions = ["RTI is outside the claim (any outcome accepted)",
                       "PUTS/PUTSP strings planted well-formed (J4)", "non-ASCII input may deliver the byte or U+FFFD (D7)",
                       "dev profile (overflow checks on), as the pinned test-suite uses"]
    vlib.build()
    if replay:
        case = json.load(open(replay))["case"]
        cf = _wpath("c02_replay_case.json")
        json.dump(case["events"], open(cf, "w"))
        out = _wpath("c02_replay.ndjson")
        harness(["replay", "isa", "--case", cf, "--out", out])
        _c02_validate(chk, [out])
        chk.samples = vlib.sample_lines(out, 2)
        chk.distinct = chk.evaluations
        return chk.finish()

    thorough = chk.tier == "thorough"
    # (A) bounded model of the instruction semantics
    res = tlc_mc("MC_ISA", "MC_ISA_deep.cfg" if thorough else "MC_ISA.cfg", workers=8)
    chk.add_mc(res, "MC_ISA")

    # (C) sweep of the real VM
    states = 6 if thorough else 1
    nchunks = 16 if thorough else 8
    jobs = []
    for stack in (1, 0):
        for c in range(nchunks):
            lo = c * 0x10000 // nchunks
            hi = (c + 1) * 0x10000 // nchunks
            jobs.append((stack, lo, hi))

    def gen(job):
        stack, lo, hi = job
        out = _wpath("c02_%d_%04x.ndjson" % (stack, lo))
        harness(["gen", "isa", "--from", lo, "--to", hi, "--states", states, "--seed", chk.seed, "--stack", stack, "--out", out])
        return out
    traces = parallel(gen, jobs, 8)
    _c02_validate(chk, traces)
    chk.distinct = chk.evaluations
    chk.samples = vlib.sample_lines(traces[0], 2)
    chk.extra["exhaustive"] = False
    chk.extra["words_swept"] = 65536
    chk.extra["states_per_word"] = states
    for t in traces:
        os.remove(t)
    return chk.finish()
