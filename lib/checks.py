"""Per-property checks. Each check_<ID>(replay) returns the process exit code."""
import json
import os

import vlib
from vlib import Check, WORK, harness, tlc_trace, tlc_mc, parallel, read_events

OPNAMES = ["BR", "ADD", "LD", "ST", "JSR", "AND", "LDR", "STR", "RTI", "NOT", "LDI", "STI", "JMP", "STACK", "LEA", "TRAP"]


def _wpath(name):
    os.makedirs(WORK, exist_ok=True)
    return os.path.join(WORK, name)


# --------------------------------------------------------------------------------------------
# C02  every instruction word executes as the ISA prescribes
# --------------------------------------------------------------------------------------------

def _c02_key(exec_ev):
    op = exec_ev["instr"] >> 12
    name = OPNAMES[op]
    if op == 15:
        name += "x%02x" % (exec_ev["instr"] & 0xFF) if 0x20 <= (exec_ev["instr"] & 0xFF) <= 0x27 else "-unknown"
    if op == 13:
        name = ["POP", "PUSH", "RETS", "CALL"][(exec_ev["instr"] >> 10) & 3]
    if op == 4:
        name = "JSR" if exec_ev["instr"] & 0x800 else "JSRR"
    if exec_ev["kind"] == "panic":
        return "%s:panic:%s" % (name, exec_ev["msg"].split(" @ ")[0][:60])
    if exec_ev["kind"] == "exit":
        return "%s:exit%d" % (name, exec_ev["code"])
    return "%s:wrong-result" % name


def _c02_validate(chk, traces):
    def one(t):
        return tlc_trace("Trace_ISA", t)
    results = parallel(one, traces, 8)
    for t, res in zip(traces, results):
        chk.add_trace(res, res["nrec"] // 2)
        chk.evaluations += res["nrec"] // 2
        if res["consumed"] != res["nrec"]:
            raise vlib.ToolError("Trace_ISA consumed %s of %s events of %s" % (res["consumed"], res["nrec"], t))
        if res["bad"]:
            idx = set(res["bad"]) | set(i - 1 for i in res["bad"])
            evs = read_events(t, idx)
            for i in sorted(res["bad"]):
                ex = evs[i]
                chk.violation(_c02_key(ex),
                              "instruction 0x%04x: observed %s, ISA model disagrees" % (ex["instr"], ex["kind"] + (" " + ex["msg"] if ex["msg"] else "")),
                              {"family": "isa", "events": [evs[i - 1], ex]})
    return results


def check_C02(replay=None):
    chk = Check("C02")
    chk.rule = ("case = (instruction word, planted machine state, stack flag); all 65,536 words x S seeded states x both flag values; "
                "the real RunState::execute runs on the planted state and Trace_ISA.tla (ISA!Exec) must explain registers, PC, CC, the diff over all "
                "65,536 memory words, output, consumed input and the way it ended; distinct = distinct (word, flag, state) triples")
    chk.assumptions = ["RTI is outside the claim (any outcome accepted)",
                       "PUTS/PUTSP strings planted well-formed (J4)", "non-ASCII input may deliver the byte or U+FFFD (D7)",
                       "dev profile (overflow checks on), as the pinned test-suite uses"]
    vlib.build()
    if replay:
        case = json.load(open(replay))["case"]
        cf = _wpath("c02_replay_case.json")
        json.dump(case["events"], open(cf, "w"))
        out = _wpath("c02_replay.ndjson")
        harness(["replay", "isa", "--case", cf, "--out", out])
        _c02_validate(chk, [out])
        chk.samples = vlib.sample_lines(out, 2)
        chk.distinct = chk.evaluations
        return chk.finish()

    thorough = chk.tier == "thorough"
    # (A) bounded model of the instruction semantics
    res = tlc_mc("MC_ISA", "MC_ISA_deep.cfg" if thorough else "MC_ISA.cfg", workers=8)
    chk.add_mc(res, "MC_ISA")

    # (C) sweep of the real VM
    states = 6 if thorough else 1
    nchunks = 16 if thorough else 8
    jobs = []
    for stack in (1, 0):
        for c in range(nchunks):
            lo = c * 0x10000 // nchunks
            hi = (c + 1) * 0x10000 // nchunks
            jobs.append((stack, lo, hi))

    def gen(job):
        stack, lo, hi = job
        out = _wpath("c02_%d_%04x.ndjson" % (stack, lo))
        harness(["gen", "isa", "--from", lo, "--to", hi, "--states", states, "--seed", chk.seed, "--stack", stack, "--out", out])
        return out
    traces = parallel(gen, jobs, 8)
    _c02_validate(chk, traces)
    chk.distinct = chk.evaluations
    chk.samples = vlib.sample_lines(traces[0], 2)
    chk.extra["exhaustive"] = False
    chk.extra["words_swept"] = 65536
    chk.extra["states_per_word"] = states
    for t in traces:
        os.remove(t)
    return chk.finish()


# --------------------------------------------------------------------------------------------
# C01 / C04  assembler: image and verdict
# --------------------------------------------------------------------------------------------

def _asm_key(ev):
    kinds = [it["k"] for it in ev["ast"]]
    focus = [k for k in kinds if k not in ("add",)] or kinds
    what = ev["res"] + (":" + ev["stage"] if ev.get("stage") else "")
    if ev["res"] == "panic":
        what += ":" + ev["msg"].split(" @ ")[0][:50]
    if ev["fam"] in ("fields", "verdict", "labels"):
        return "%s:%s:%s" % (ev["fam"], "+".join(sorted(set(focus)))[:40], what)
    return "%s:%s" % (ev["fam"], what)


def _asm_jobs_run(chk, jobs, spec="Trace_Asm"):
    """jobs: list of (name, harness-args). Generates and validates each; returns traces."""
    def gen(job):
        name, args = job
        out = _wpath("%s_%s.ndjson" % (chk.pid.lower(), name))
        summ = harness(["gen", "asm"] + args + ["--out", out])
        res = tlc_trace(spec, out)
        return out, summ, res
    results = parallel(gen, jobs, 8)
    traces = []
    for out, summ, res in results:
        traces.append(out)
        chk.add_trace(res, res["nrec"])
        chk.evaluations += res["nrec"]
        chk.extra["layout_mismatch"] = chk.extra.get("layout_mismatch", 0) + summ.get("layout_mismatch", 0)
        if res["consumed"] != res["nrec"]:
            raise vlib.ToolError("%s consumed %s of %s events of %s" % (spec, res["consumed"], res["nrec"], out))
        if res["bad"]:
            evs = read_events(out, res["bad"])
            for i in sorted(res["bad"]):
                e = evs[i]
                chk.violation(_asm_key(e), "assembler output not explained by Assembler.tla: res=%s stage=%s words=%s src=%r" %
                              (e["res"], e.get("stage"), e["words"][:8], e["src"][:120]),
                              {"family": "asm", "events": [e]})
        if summ.get("layout_mismatch"):
            chk.violation("layout-changes-image", "two layouts of the same tree assembled to different images", {"family": "asm", "events": []})
    return traces


def _asm_replay(chk, replay, spec="Trace_Asm"):
    case = json.load(open(replay))["case"]
    cf = _wpath("%s_replay_case.json" % chk.pid.lower())
    json.dump(case["events"], open(cf, "w"))
    out = _wpath("%s_replay.ndjson" % chk.pid.lower())
    harness(["replay", "asm", "--case", cf, "--out", out])
    res = tlc_trace(spec, out)
    chk.add_trace(res, res["nrec"])
    chk.evaluations += res["nrec"]
    evs = read_events(out, res["bad"])
    for i in sorted(res["bad"]):
        e = evs[i]
        chk.violation(_asm_key(e), "assembler output not explained by Assembler.tla: res=%s words=%s" % (e["res"], e["words"][:8]),
                      {"family": "asm", "events": [e]})
    chk.samples = vlib.sample_lines(out, 1)
    chk.distinct = chk.evaluations
    return chk.finish()


def _slim(ev):
    return {k: ev[k] for k in ev if k != "ast"} | {"ast_items": len(ev.get("ast", []))}


def check_C01(replay=None):
    chk = Check("C01")
    chk.rule = ("case = syntax tree rendered to text in a seeded layout (keyword case, separators , : space tab, comments, blank lines, #d/xH/0xH/x-H spellings) "
                "and assembled by the real pipeline; fields: every instruction form x every register x EVERY in-range value of every field; labels: every PC-relative "
                "form x label before/after/on the statement at every field boundary; random: multi-label programs in 3 layouts each. Trace_Asm.tla requires "
                "origin, every word, breakpoints and the symbol table to equal Assembler!Image. distinct = distinct (tree, layout) pairs")
    chk.assumptions = ["J1: alias literals (x FFFF for -1) may be accepted or rejected", "non-BMP characters are not put into .stringz"]
    vlib.build()
    if replay:
        return _asm_replay(chk, replay)
    thorough = chk.tier == "thorough"
    res = tlc_mc("MC_Assembler", "MC_Assembler_deep.cfg" if thorough else "MC_Assembler.cfg", workers=8, coverage=False, timeout=1500)
    chk.add_mc(res, "MC_Assembler")
    stride = 1 if thorough else 4
    nphase = 8 if thorough else 8
    jobs = []
    for ph in range(nphase):
        # phases partition the field sweep: item i goes to phase i % (stride*nphase)
        jobs.append(("fields%d" % ph, ["--fam", "fields", "--stride", stride * nphase, "--phase", ph * stride + (chk.seed % stride), "--seed", chk.seed,
                                      "--layouts", 2 if thorough else 1]))
    jobs.append(("labels", ["--fam", "labels", "--n", 40 if thorough else 6, "--seed", chk.seed, "--layouts", 2]))
    jobs.append(("labels_ns", ["--fam", "labels", "--n", 4, "--seed", chk.seed + 1, "--layouts", 1, "--stack", 0]))
    nrand = 1600 if thorough else 160
    for k in range(4):
        jobs.append(("random%d" % k, ["--fam", "random", "--n", nrand // 4, "--seed", chk.seed * 7 + k, "--layouts", 3, "--stack", 1 if k < 3 else 0]))
    traces = _asm_jobs_run(chk, jobs)
    chk.distinct = chk.evaluations
    chk.samples = [_slim(e) for e in vlib.sample_lines(traces[-1], 1)] + [_slim(e) for e in vlib.sample_lines(traces[0], 1)]
    chk.extra["exhaustive"] = False
    chk.extra["field_sweep_fraction"] = "1/%d" % stride
    for t in traces:
        os.remove(t)
    return chk.finish()


def check_C04(replay=None):
    chk = Check("C04")
    chk.rule = ("case = program with an operand at / around a field boundary (min-1, min, -1, 0, max, max+1, 16-bit extremes, alias values) in a seeded spelling, "
                "label distances of exactly +-2^(n-1) and beyond built with .blkw/filler padding, undefined/duplicate/case-differing labels, repeated .orig, "
                "structural label errors; verdict (Ok/Err) of the real pipeline must equal Assembler!Accepts and accepted images must equal Assembler!Image; "
                "both feature-flag values. distinct = distinct (tree, layout) pairs")
    chk.assumptions = ["J1: alias literals may be accepted or rejected (if accepted the field must hold the low bits)",
                       "CALL takes a label only (README)"]
    vlib.build()
    if replay:
        return _asm_replay(chk, replay)
    thorough = chk.tier == "thorough"
    for cfg in (["MC_Assembler.cfg", "MC_Assembler_nostack.cfg"] if not thorough else ["MC_Assembler_deep.cfg", "MC_Assembler_nostack.cfg", "MC_Assembler.cfg"]):
        res = tlc_mc("MC_Assembler", cfg, workers=8, coverage=False, timeout=1500)
        chk.add_mc(res, cfg)
    jobs = []
    reps = 12 if thorough else 2
    for k in range(reps):
        jobs.append(("verdict%d" % k, ["--fam", "verdict", "--n", 30 if thorough else 6, "--seed", chk.seed * 13 + k, "--layouts", 3, "--stack", 1]))
    jobs.append(("verdict_ns", ["--fam", "verdict", "--n", 4, "--seed", chk.seed, "--layouts", 2, "--stack", 0]))
    traces = _asm_jobs_run(chk, jobs)
    chk.distinct = chk.evaluations
    chk.samples = [_slim(e) for e in vlib.sample_lines(traces[0], 2)]
    for t in traces:
        os.remove(t)
    return chk.finish()
