"""Per-property checks. Each check_<ID>(replay) returns the process exit code."""
import json
import os
import time

import vlib
from vlib import Check, WORK, harness, tlc_trace, tlc_mc, parallel, read_events

OPNAMES = ["BR", "ADD", "LD", "ST", "JSR", "AND", "LDR", "STR", "RTI", "NOT", "LDI", "STI", "JMP", "STACK", "LEA", "TRAP"]


# the thorough tier multiplies its seeded families by this factor (3 by default: every thorough check then takes 3-12 minutes on 16 cores)
SCALE = max(1, int(os.environ.get("VERIF_SCALE", "3")))


def _wpath(name):
    # per-process scratch directory: two checks (or two runs of one check) never share file names
    d = os.path.join(WORK, "p%d" % os.getpid())
    os.makedirs(d, exist_ok=True)
    return os.path.join(d, name)


# --------------------------------------------------------------------------------------------
# C02  every instruction word executes as the ISA prescribes
# --------------------------------------------------------------------------------------------

def _c02_key(exec_ev):
    op = exec_ev["instr"] >> 12
    name = OPNAMES[op]
    if op == 15:
        name += "x%02x" % (exec_ev["instr"] & 0xFF) if 0x20 <= (exec_ev["instr"] & 0xFF) <= 0x27 else "-unknown"
    if op == 13:
        name = ["POP", "PUSH", "RETS", "CALL"][(exec_ev["instr"] >> 10) & 3]
    if op == 4:
        name = "JSR" if exec_ev["instr"] & 0x800 else "JSRR"
    if exec_ev["kind"] == "panic":
        return "%s:panic:%s" % (name, exec_ev["msg"].split(" @ ")[0][:60])
    if exec_ev["kind"] == "exit":
        return "%s:exit%d" % (name, exec_ev["code"])
    return "%s:wrong-result" % name


def _c02_validate(chk, traces):
    def one(t):
        return tlc_trace("Trace_ISA", t)
    results = parallel(one, traces, 8)
    for t, res in zip(traces, results):
        chk.add_trace(res, res["nrec"] // 2)
        chk.evaluations += res["nrec"] // 2
        if res["consumed"] != res["nrec"]:
            raise vlib.ToolError("Trace_ISA consumed %s of %s events of %s" % (res["consumed"], res["nrec"], t))
        if res["bad"]:
            idx = set(res["bad"]) | set(i - 1 for i in res["bad"])
            evs = read_events(t, idx)
            for i in sorted(res["bad"]):
                ex = evs[i]
                chk.violation(_c02_key(ex),
                              "instruction 0x%04x: observed %s, ISA model disagrees" % (ex["instr"], ex["kind"] + (" " + ex["msg"] if ex["msg"] else "")),
                              {"family": "isa", "events": [evs[i - 1], ex]})
    return results


def check_C02(replay=None):
    chk = Check("C02")
    chk.rule = ("case = (instruction word, planted machine state, stack flag); all 65,536 words x S seeded states x both flag values; "
                "the real RunState::execute runs on the planted state and Trace_ISA.tla (ISA!Exec) must explain registers, PC, CC, the diff over all "
                "65,536 memory words, output, consumed input and the way it ended; distinct = distinct (word, flag, state) triples")
    chk.assumptions = ["RTI is outside the claim (any outcome accepted)",
                       "PUTS/PUTSP strings planted well-formed (J4)", "non-ASCII input may deliver the byte or U+FFFD (D7)",
                       "dev profile (overflow checks on), as the pinned test-suite uses"]
    vlib.build()
    if replay:
        case = json.load(open(replay))["case"]
        cf = _wpath("c02_replay_case.json")
        json.dump(case["events"], open(cf, "w"))
        out = _wpath("c02_replay.ndjson")
        harness(["replay", "isa", "--case", cf, "--out", out])
        _c02_validate(chk, [out])
        chk.samples = vlib.sample_lines(out, 2)
        chk.distinct = max(chk.distinct, 2)
        return chk.finish()

    thorough = chk.tier == "thorough"
    # (A) bounded model of the instruction semantics
    res = tlc_mc("MC_ISA", "MC_ISA_deep.cfg" if thorough else "MC_ISA.cfg", workers=8)
    chk.add_mc(res, "MC_ISA")

    # (C) sweep of the real VM
    states = 4 * SCALE if thorough else 2
    nchunks = 16 if thorough else 8
    jobs = []
    for stack in (1, 0):
        for c in range(nchunks):
            lo = c * 0x10000 // nchunks
            hi = (c + 1) * 0x10000 // nchunks
            jobs.append((stack, lo, hi))

    def gen(job):
        stack, lo, hi = job
        out = _wpath("c02_%d_%04x.ndjson" % (stack, lo))
        harness(["gen", "isa", "--from", lo, "--to", hi, "--states", states, "--seed", chk.seed, "--stack", stack, "--out", out])
        return out
    traces = parallel(gen, jobs, 8)
    _c02_validate(chk, traces)
    # GETC from a real terminal, the stack words under every spelling of -f, input read while commands arrive on the same stdin
    _env_events(chk, {"tty", "featrun", "xport"})
    chk.distinct = max(chk.distinct, 2)
    chk.samples = vlib.sample_lines(traces[0], 2)
    chk.extra["exhaustive"] = False
    chk.extra["words_swept"] = 65536
    chk.extra["states_per_word"] = states
    for t in traces:
        os.remove(t)
    return chk.finish()


# --------------------------------------------------------------------------------------------
# C01 / C04  assembler: image and verdict
# --------------------------------------------------------------------------------------------

def _asm_key(ev):
    kinds = [it["k"] for it in ev["ast"]]
    focus = [k for k in kinds if k not in ("add",)] or kinds
    what = ev["res"] + (":" + ev["stage"] if ev.get("stage") else "")
    if ev["res"] == "panic":
        what += ":" + ev["msg"].split(" @ ")[0][:50]
    if ev["fam"] in ("fields", "verdict", "labels"):
        return "%s:%s:%s" % (ev["fam"], "+".join(sorted(set(focus)))[:40], what)
    return "%s:%s" % (ev["fam"], what)


def _asm_jobs_run(chk, jobs, spec="Trace_Asm"):
    """jobs: list of (name, harness-args). Generates and validates each; returns traces."""
    def gen(job):
        name, args = job
        out = _wpath("%s_%s.ndjson" % (chk.pid.lower(), name))
        summ = harness(["gen", "asm"] + args + ["--out", out])
        res = tlc_trace(spec, out)
        return out, summ, res
    results = parallel(gen, jobs, 8)
    traces = []
    for out, summ, res in results:
        traces.append(out)
        chk.add_trace(res, res["nrec"])
        chk.evaluations += res["nrec"]
        chk.extra["layout_mismatch"] = chk.extra.get("layout_mismatch", 0) + summ.get("layout_mismatch", 0)
        if res["consumed"] != res["nrec"]:
            raise vlib.ToolError("%s consumed %s of %s events of %s" % (spec, res["consumed"], res["nrec"], out))
        if res["bad"]:
            evs = read_events(out, res["bad"])
            for i in sorted(res["bad"]):
                e = evs[i]
                chk.violation(_asm_key(e), "assembler output not explained by Assembler.tla: res=%s stage=%s words=%s src=%r" %
                              (e["res"], e.get("stage"), e["words"][:8], e["src"][:120]),
                              {"family": "asm", "events": [e]})
        if summ.get("layout_mismatch"):
            chk.violation("layout-changes-image", "two layouts of the same tree assembled to different images", {"family": "asm", "events": []})
    return traces


def _asm_replay(chk, replay, spec="Trace_Asm"):
    case = json.load(open(replay))["case"]
    cf = _wpath("%s_replay_case.json" % chk.pid.lower())
    json.dump(case["events"], open(cf, "w"))
    out = _wpath("%s_replay.ndjson" % chk.pid.lower())
    harness(["replay", "asm", "--case", cf, "--out", out])
    res = tlc_trace(spec, out)
    chk.add_trace(res, res["nrec"])
    chk.evaluations += res["nrec"]
    evs = read_events(out, res["bad"])
    for i in sorted(res["bad"]):
        e = evs[i]
        chk.violation(_asm_key(e), "assembler output not explained by Assembler.tla: res=%s words=%s" % (e["res"], e["words"][:8]),
                      {"family": "asm", "events": [e]})
    chk.samples = vlib.sample_lines(out, 1)
    chk.distinct = max(chk.distinct, 2)
    return chk.finish()


def _slim(ev):
    return {k: ev[k] for k in ev if k != "ast"} | {"ast_items": len(ev.get("ast", []))}


def check_C01(replay=None):
    chk = Check("C01")
    chk.rule = ("case = syntax tree rendered to text in a seeded layout (keyword case, separators , : space tab, comments, blank lines, #d/xH/0xH/x-H spellings) "
                "and assembled by the real pipeline; fields: every instruction form x every register x EVERY in-range value of every field; labels: every PC-relative "
                "form x label before/after/on the statement at every field boundary; random: multi-label programs in 3 layouts each. Trace_Asm.tla requires "
                "origin, every word, breakpoints and the symbol table to equal Assembler!Image. distinct = distinct (tree, layout) pairs")
    chk.assumptions = ["J1: alias literals (x FFFF for -1) may be accepted or rejected", "non-BMP characters are not put into .stringz"]
    vlib.build()
    if replay:
        return _asm_replay(chk, replay)
    thorough = chk.tier == "thorough"
    res = tlc_mc("MC_Assembler", "MC_Assembler_deep.cfg" if thorough else "MC_Assembler.cfg", workers=8, coverage=False, timeout=1500)
    chk.add_mc(res, "MC_Assembler")
    chk.add_mc(tlc_mc("MC_AsmISA", "MC_AsmISA.cfg", workers=4, coverage=False), "MC_AsmISA")
    stride = 1
    nphase = 8
    jobs = []
    for ph in range(nphase):
        # phases partition the field sweep: item i goes to phase i % (stride*nphase)
        jobs.append(("fields%d" % ph, ["--fam", "fields", "--stride", stride * nphase, "--phase", ph * stride + (chk.seed % stride), "--seed", chk.seed,
                                      "--layouts", 2 if thorough else 1]))
    jobs.append(("labels", ["--fam", "labels", "--n", 40 * SCALE if thorough else 6, "--seed", chk.seed, "--layouts", 2]))
    jobs.append(("labels_ns", ["--fam", "labels", "--n", 4, "--seed", chk.seed + 1, "--layouts", 1, "--stack", 0]))
    jobs.append(("strings", ["--fam", "strings", "--seed", chk.seed, "--layouts", 1]))
    # .blkw counts around and above 2^15, written in decimal (layout 0) and in a seeded spelling
    jobs.append(("bigblk", ["--fam", "bigblk", "--seed", chk.seed, "--layouts", 3 if thorough else 2]))
    # an accepted source must have the right image - also when it should not have been accepted
    jobs.append(("beyond", ["--fam", "verdict", "--n", 4 if thorough else 1, "--seed", chk.seed + 3, "--layouts", 1]))
    nrand = 1600 * SCALE if thorough else 160
    for k in range(4):
        jobs.append(("random%d" % k, ["--fam", "random", "--n", nrand // 4, "--seed", chk.seed * 7 + k, "--layouts", 3, "--stack", 1 if k < 3 else 0]))
    traces = _asm_jobs_run(chk, jobs)
    # literal spellings and keyword recognition at the level of the raw token stream
    _lex_run(chk, [("chunks%d" % k, ["--mode", "chunks", "--len", 3, "--stride", 4 if thorough else 16, "--phase", k + chk.seed, "--stack", 1]) for k in range(4)]
                  + [("rnd", ["--mode", "random", "--n", 20000 if thorough else 2000, "--seed", chk.seed])])
    chk.distinct = max(chk.distinct, 2)
    chk.samples = [_slim(e) for e in vlib.sample_lines(traces[-1], 1)] + [_slim(e) for e in vlib.sample_lines(traces[0], 1)]
    chk.extra["exhaustive"] = False
    chk.extra["field_sweep_fraction"] = "1/%d" % stride
    for t in traces:
        os.remove(t)
    return chk.finish()


def check_C04(replay=None):
    chk = Check("C04")
    chk.rule = ("case = program with an operand at / around a field boundary (min-1, min, -1, 0, max, max+1, 16-bit extremes, alias values) in a seeded spelling, "
                "label distances of exactly +-2^(n-1) and beyond built with .blkw/filler padding, undefined/duplicate/case-differing labels, repeated .orig, "
                "structural label errors; verdict (Ok/Err) of the real pipeline must equal Assembler!Accepts and accepted images must equal Assembler!Image; "
                "both feature-flag values. distinct = distinct (tree, layout) pairs")
    chk.assumptions = ["J1: alias literals may be accepted or rejected (if accepted the field must hold the low bits)",
                       "CALL takes a label only (README)"]
    vlib.build()
    if replay:
        return _asm_replay(chk, replay)
    thorough = chk.tier == "thorough"
    for cfg in (["MC_Assembler.cfg", "MC_Assembler_nostack.cfg"] if not thorough else ["MC_Assembler_deep.cfg", "MC_Assembler_nostack.cfg", "MC_Assembler.cfg"]):
        res = tlc_mc("MC_Assembler", cfg, workers=8, coverage=False, timeout=1500)
        chk.add_mc(res, cfg)
    jobs = []
    reps = 12 * SCALE if thorough else 2
    for k in range(reps):
        jobs.append(("verdict%d" % k, ["--fam", "verdict", "--n", 30 if thorough else 6, "--seed", chk.seed * 13 + k, "--layouts", 3, "--stack", 1]))
    jobs.append(("verdict_ns", ["--fam", "verdict", "--n", 4, "--seed", chk.seed, "--layouts", 2, "--stack", 0]))
    traces = _asm_jobs_run(chk, jobs)
    chk.distinct = max(chk.distinct, 2)
    chk.samples = [_slim(e) for e in vlib.sample_lines(traces[0], 2)]
    for t in traces:
        os.remove(t)
    return chk.finish()


# --------------------------------------------------------------------------------------------
# Runs and debugger sessions: C03, C09-C13, C15, C16 (Trace_Debug.tla)
# --------------------------------------------------------------------------------------------

def _session_of(path, idx):
    """The events of the session containing 1-based line idx (from its load event up to idx)."""
    lines = []
    with open(path) as f:
        cur = []
        for i, line in enumerate(f, 1):
            e = json.loads(line)
            if e["ev"] in ("load", "loadfail", "hang"):
                cur = []
            cur.append(e)
            if i == idx:
                lines = cur
                break
    return lines


def _slim_ev(e):
    e = dict(e)
    for k in ("fin", "ref", "mem", "texts", "syms"):
        if k in e and isinstance(e[k], (list, dict)) and len(json.dumps(e[k])) > 300:
            e[k] = "<%d chars>" % len(json.dumps(e[k]))
    return e


def _dbg_key(reason, ev, load):
    prog = load.get("id", "?").split(":")[1] if load else "?"
    if reason in ("no-progress", "panic", "step-over-reentered", "load-state"):
        return reason if reason != "panic" else "panic:" + ev.get("msg", "").split(" @ ")[0][:50]
    if ev["ev"] == "cmd":
        return "cmd:%s" % ev["c"]["n"]
    if ev["ev"] == "stop":
        return "stop:%s:%s" % (ev["kind"], ev.get("code"))
    return ev["ev"]


def _dbg_jobs_run(chk, jobs, nproc=8):
    """jobs: list of (name, harness-args for `gen run`)."""
    def gen(job):
        name, args = job
        out = _wpath("%s_%s.ndjson" % (chk.pid.lower(), name))
        if args and args[0] == "--GEN-CMD--":
            summ = harness(["gen", "cmd"] + args[1:] + ["--out", out])
        else:
            summ = harness(["gen", "run"] + args + ["--out", out])
        res = tlc_trace("Trace_Debug", out, timeout=2400)
        return out, summ, res
    results = parallel(gen, jobs, nproc)
    traces = []
    for out, summ, res in results:
        traces.append(out)
        chk.add_trace(res, summ.get("sessions", 0))
        chk.evaluations += summ.get("sessions", 0)
        chk.extra["events"] = chk.extra.get("events", 0) + res["nrec"]
        if res["consumed"] != res["nrec"]:
            raise vlib.ToolError("Trace_Debug consumed %s of %s events of %s" % (res["consumed"], res["nrec"], out))
        for i in sorted(res["bad"]):
            sess = _session_of(out, i)
            ev = sess[-1]
            load = sess[0] if sess and sess[0]["ev"] == "load" else None
            chk.violation(_dbg_key(res["bad"][i], ev, load),
                          "session %s: event %s not explained by Debugger/Machine spec (%s): %s" %
                          (load.get("id") if load else "?", ev["ev"], res["bad"][i], json.dumps(_slim_ev(ev))[:300]),
                          {"family": "run", "reason": res["bad"][i], "session": [_slim_ev(e) if e["ev"] != "load" else e for e in sess]})
    # load failures are reported by the harness as events; they are only legitimate for feature-flag flips
    return traces


def _replay_B(chk, cfg, stride=1):
    """Direction (B): behaviours enumerated by TLC (Gen_Debugger.tla) replayed through the real debugger."""
    import re as _r
    res = tlc_mc("Gen_Debugger", cfg, workers=6, coverage=False, timeout=2400)
    chk.add_mc(res, cfg)
    beh = []
    for tag, body in res["tuples"]:
        if tag == "REPLAY":
            m = _r.search(r'"(\{.*\})"', body, _r.S)
            beh.append(json.loads(json.loads('"' + m.group(1) + '"')))
    beh = beh[chk.seed % stride::stride]
    if not beh:
        raise vlib.ToolError("Gen_Debugger produced no behaviours")
    bpath = _wpath("%s_behaviours.ndjson" % chk.pid.lower())
    with open(bpath, "w") as f:
        for b in beh:
            f.write(json.dumps(b) + "\n")
    out = _wpath("%s_replay.ndjson" % chk.pid.lower())
    harness(["gen", "run", "--mode", "replay", "--in", bpath, "--out", out])
    sess, cur = {}, None
    for line in open(out):
        e = json.loads(line)
        if e["ev"] in ("load", "loadfail"):
            cur = int(e["id"].split(":")[1])
            sess[cur] = {"execs": 0, "stop": None, "events": [e]}
        else:
            sess[cur]["events"].append(e)
            if e["ev"] == "exec":
                sess[cur]["execs"] += 1
            elif e["ev"] == "stop":
                sess[cur]["stop"] = e
    for i, b in enumerate(beh):
        s = sess.get(i)
        names = "+".join(c["n"] for c in b["script"])
        if not s or not s["stop"]:
            chk.violation("replay:no-session", "behaviour %d (%s: %s) could not be replayed" % (i, b["prog"], names), {"family": "replay", "behaviour": b})
            continue
        fin = s["stop"]["fin"]
        exp = {"reg": b["reg"], "pc": b["pc"], "cc": b["cc"], "mem": sorted([int(a), v] for a, v in b["mem"].items()), "nexec": b["nexec"]}
        got = {"reg": fin["reg"], "pc": fin["pc"], "cc": fin["cc"], "mem": sorted(fin["mem"]), "nexec": s["execs"]}
        if exp != got:
            diff = {k: [exp[k], got[k]] for k in exp if exp[k] != got[k]}
            chk.violation("replay:%s:%s" % (b["prog"], names), "TLC behaviour (%s, script %s) ends differently in the real debugger: spec vs real %s" % (b["prog"], names, json.dumps(diff)[:300]),
                          {"family": "replay", "behaviour": b, "session": [_slim_ev(e) for e in s["events"]]})
    chk.traces += len(beh)
    chk.evaluations += len(beh)
    chk.extra["behaviours_replayed_from_TLC"] = chk.extra.get("behaviours_replayed_from_TLC", 0) + len(beh)
    chk.samples.append({"replayed_behaviour": {"prog": beh[0]["prog"], "script": [c["n"] for c in beh[len(beh) // 2]["script"]], "final_pc": beh[len(beh) // 2]["pc"]}})
    os.remove(out)
    os.remove(bpath)


def _run_family(pid, rule, assumptions, jobs_fn, replay, mc=None, replay_b=None, extra_fn=None):
    chk = Check(pid)
    chk.rule = rule
    chk.assumptions = assumptions
    vlib.build()
    if replay:
        raise vlib.ToolError("replay of recorded sessions: re-run `bin/check %s` (sessions are regenerated from VERIF_SEED); the replay file holds the full failing session" % pid)
    thorough = chk.tier == "thorough"
    if mc:
        for spec, cfg in mc(thorough):
            res = tlc_mc(spec, cfg, workers=8, coverage=False, timeout=2400)
            chk.add_mc(res, cfg)
    traces = _dbg_jobs_run(chk, jobs_fn(chk, thorough))
    if replay_b:
        cfg, stride = replay_b(thorough)
        _replay_B(chk, cfg, stride)
    if extra_fn:
        extra_fn(chk, thorough)
    chk.distinct = max(chk.distinct, 2)
    samples = list(chk.samples)
    for e in vlib.sample_lines(traces[0], 12):
        if e["ev"] in ("load", "cmd", "exec") and len(samples) < 3:
            samples.append(_slim_ev(e))
    chk.samples = samples
    for t in traces:
        os.remove(t)
    return chk.finish()


DBG_ASSUME = ["observations are taken in --minimal mode through the cfg-gated hooks (state after every loop top, command and instruction as a diff over all 65,536 words)",
              "sessions are bounded by a step budget; budget exhaustion is a violation unless the script mutates the program (it may then legitimately loop)",
              "J3: `step` over a call is depth-aware in the spec"]


def check_C03(replay=None):
    def jobs(chk, thorough):
        j = []
        n = 400 * SCALE if thorough else 40
        for k in range(4):
            j.append(("run%d" % k, ["--mode", "run", "--n", n // 4, "--seed", chk.seed * 11 + k]))
        j.append(("tiny_ex", ["--mode", "tiny", "--n", 300 if thorough else 60, "--seed", chk.seed] + (["--exhaustive"] if thorough else [])))
        if not thorough:
            j.append(("tiny2", ["--mode", "tiny", "--n", 400, "--seed", chk.seed + 5]))
        return j
    return _run_family("C03",
                       "session = program (hand-written catalogue in 2 layouts and with the feature flag flipped; seeded structured programs that terminate by construction: "
                       "counted loops, JSR/RET and CALL/RETS subroutines, self-modifying stores, fall-off, jumps to 0xFFFF / below origin / >= 0xFE00, traps with input incl. non-ASCII and premature EOF; "
                       "arbitrary word images <= 5 words at boundary origins under a step budget) run by the real RunEnvironment; Trace_Debug.tla (Machine spec) must explain the load state, "
                       "every executed instruction (fetch address inside [origin, 0xFE00), word, full state diff, output, input) and the way the run stopped. distinct = sessions",
                       DBG_ASSUME, jobs, replay, mc=lambda th: [("MC_Machine", "MC_Machine_deep.cfg" if th else "MC_Machine.cfg")],
                       extra_fn=lambda chk, th: _env_events(chk, {"tty", "fifo", "objmin"}))


def _mc_dbg(kind):
    def f(thorough):
        if kind == "pure":
            return [("MC_Debugger", "MC_Debugger_pure_deep.cfg" if thorough else "MC_Debugger_pure.cfg")]
        if kind == "live":
            return [("MC_Debugger", "MC_Debugger_live.cfg"), ("MC_Debugger", "MC_Debugger_deep.cfg" if thorough else "MC_Debugger.cfg")]
        return [("MC_Debugger", "MC_Debugger_deep.cfg" if thorough else "MC_Debugger.cfg")]
    return f


def _dbg_jobs(focus, quick_n=24, quick_per=4, enum_len=None, extra=None):
    def jobs(chk, thorough):
        j = []
        n = quick_n * 8 * SCALE if thorough else quick_n
        per = quick_per + 2 if thorough else quick_per
        parts = 8 if thorough else 4
        for k in range(parts):
            j.append(("%s%d" % (focus, k), ["--mode", "debug", "--focus", focus, "--n", max(1, n // parts), "--per", per, "--seed", chk.seed * 17 + k]))
        if enum_len:
            stride = 2 if thorough else 12
            L = enum_len + (1 if thorough else 0)
            if thorough:
                stride = 24
            for ph in range(4):
                j.append(("enum%d" % ph, ["--mode", "enum", "--len", L, "--stride", stride * 4, "--phase", ph * stride + (chk.seed % stride), "--seed", chk.seed]))
        for name, args in (extra or []):
            j.append((name, args + ["--seed", chk.seed]))
        return j
    return jobs


DBG_RULE = ("session = program (catalogue of control-flow shapes + seeded structured programs, rendered in seeded layouts) x debugger script (%s) run by the real "
            "RunEnvironment/Debugger with the script in Options.command; Trace_Debug.tla (Debugger spec) must explain every loop iteration (pause tags), every consumed command "
            "(printed lines, full state diff over 65,536 words, breakpoint list), every executed instruction and the way the session ended. distinct = sessions")


def _c09_cli_pairs(chk, thorough):
    """The same at the level of the real binary: `lace run p` against `lace debug p --command <non-mutating script ending in quit>`,
    both fed the program's input on stdin; standard output and exit status must agree (Trace_Cli!DbgPairOk)."""
    import random
    vlib.build(need_cli=True)
    d, man = _files(chk, "exec", 40 * SCALE if thorough else 10)
    pure = ["step", "s", "step into 3", "si 2", "step into", "r", "registers", "p r0", "print ^", "print r7", "assembly", "a ^1", "break list", "bl", "echo hi", "echo a b",
            "help", "h", "continue", "c", "break add ^1", "break remove ^1", "ba x3001", "bogus", "", "step out"]

    def pair(job):
        idx, c = job
        rnd = random.Random(chk.seed * 1000 + idx)
        evs = []
        inp = bytes(c["input"])
        a = vlib.run_lace(["run", "--minimal"] + _flag(c["stack"]) + [c["path"]], stdin=inp)
        for rep in range(3 if thorough else 2):
            cmds = [rnd.choice(pure) for _ in range(rnd.randint(0, 6))] + [rnd.choice(["quit", "q", "Quit"])]
            script = ""
            for i, cm in enumerate(cmds):
                last = i == len(cmds) - 1
                script += cm + (rnd.choice(["", ";", "\n", " "]) if last else rnd.choice([";", "\n", " ; ", ";;"]))
            if rep == 1 and inp:
                # the program still has input to read when the session ends: the shortest endings, nothing after the last command
                script = rnd.choice(["q", "s;q", "r;q", "step into 2\nq", "s;s;s;q", "c;q"])
            b = vlib.run_lace(["debug", "--minimal"] + _flag(c["stack"]) + [c["path"], "--command", script], stdin=inp)
            norm = lambda o: _norm_out(o, [c["path"]])
            evs.append({"ev": "dbgpair", "tag": c["tag"], "run": [a[0], norm(a[1])], "dbg": [b[0], norm(b[1])], "script": script, "src": c["src"]})
        return evs
    events = [e for evs in parallel(pair, list(enumerate(man)), 8) for e in evs]
    # more than 2^16 instructions between two prompts; an inspection command with hundreds of surplus arguments
    long_src = "ld r1 outer\no and r2 r2 #0\ni add r2 r2 #-1\nbrnp i\nadd r1 r1 #-1\nbrp o\nlea r0 done\nputs\nhalt\nouter .fill #300\ndone .stringz \"done\"\n"
    lp = os.path.join(d, "longloop.asm")
    open(lp, "w").write(long_src)
    a = vlib.run_lace(["run", "--minimal", lp], timeout=120)
    norm = lambda o: _norm_out(o, [lp])
    for script in ["c;q", "step;c;q", "continue", "step into 3;step out;c;q", "print r0" + " w" * 300 + ";c;q", "r" + " 1" * 256 + ";q"]:
        b = vlib.run_lace(["debug", "--minimal", lp, "--command", script], timeout=120)
        events.append({"ev": "dbgpair", "tag": "longloop", "run": [a[0], norm(a[1])], "dbg": [b[0], norm(b[1])], "script": script[:80], "src": long_src})
    esc_src = "ld r0 e\nout\nld r0 b\nout\nld r0 one\nout\nld r0 m\nout\nld r0 x\nout\nhalt\ne .fill x1b\nb .fill x5b\none .fill x31\nm .fill x6d\nx .fill x58\n"
    ep = os.path.join(d, "escout.asm")
    open(ep, "w").write(esc_src)
    a = vlib.run_lace(["run", "--minimal", ep])
    norm = lambda o: _norm_out(o, [ep])
    for script in ["step into 2;echo m;registers;step;quit", "step into 3;echo m;c;q", "step into 2;bogus m;p r0;c;q", "step into 2;assembly;c;q", "c;q"]:
        b = vlib.run_lace(["debug", "--minimal", ep, "--command", script])
        events.append({"ev": "dbgpair", "tag": "escout", "run": [a[0], norm(a[1])], "dbg": [b[0], norm(b[1])], "script": script, "src": esc_src})
    # output that ends in the middle of a line, then a trap that starts a fresh line (REG, PUTN): a pause in between must not change what is printed
    mid_src = "ld r0 a\nout\nout\nreg\nout\nputn\nout\nreg\nlea r0 s\nputs\nreg\nhalt\na .fill x41\ns .stringz \"xy\"\n"
    mp = os.path.join(d, "midline.asm")
    open(mp, "w").write(mid_src)
    a = vlib.run_lace(["run", "--minimal", mp])
    norm = lambda o: _norm_out(o, [mp])
    for script in ["step;step;step;step;step;step;step;step;step;step;step;c;q", "step into 3;r;step;p r0;step into 2;echo x;step;c;q", "step into 2;c;q", "step into 7;bogus;c;q",
                   "step into 10;help;step;quit", "break add x3003;c;c;q", "break add x3007;break add x300a;c;r;c;r;c;q"]:
        b = vlib.run_lace(["debug", "--minimal", mp, "--command", script])
        events.append({"ev": "dbgpair", "tag": "midline", "run": [a[0], norm(a[1])], "dbg": [b[0], norm(b[1])], "script": script, "src": mid_src})
    # the same WITHOUT --minimal: the debugger draws tables and source excerpts (on stderr); whatever it draws, what the program prints and how it ends stay the same.
    # Source lines are long and hold multi-byte characters at every byte offset around the columns the tables cut at.
    wide = ["\u017dlu\u0165ou\u010dk\u00fd k\u016f\u0148 \u00fap\u011bl \u010f\u00e1belsk\u00e9 \u00f3dy", "x" * 13 + "\u00e9" * 12, "x" * 14 + "\u2713" * 9, "x" * 15 + "\U0001F600" * 6, "\u00e9" * 40]
    for k, text in enumerate(wide):
        nm_src = "ld r0 a\nout\nlea r0 s%d\nputs\nreg\nhalt\na .fill x41\ns%d .stringz \"%s\" ; %s\n" % (k, k, text, text[::-1])
        npath = os.path.join(d, "wide%d.asm" % k)
        open(npath, "w").write(nm_src)
        a = vlib.run_lace(["run", npath])
        norm = lambda o: _norm_out(o, [npath])
        for script in ["break add s%d;break add s%d+%d;break list;step;assembly;c;q" % (k, k, 3 + k), "step into 2;assembly s%d;registers;print s%d;help;c;q" % (k, k),
                       "break add ^1;break list;c;break list;assembly;r;c;q"]:
            b = vlib.run_lace(["debug", npath, "--command", script])
            events.append({"ev": "dbgpair", "tag": "wide-nonminimal", "run": [a[0], norm(a[1])], "dbg": [b[0], norm(b[1])], "script": script, "src": nm_src})
    _cli_validate(chk, events, "dbgpair")
    _env_events(chk, {"xport"}, n=9)
    _shutil.rmtree(d, ignore_errors=True)


def check_C09(replay=None):
    return _run_family("C09", DBG_RULE % "only non-mutating commands with arbitrary arguments, ending in quit / end of input; the same image is also run without debugger and final registers, PC, CC, all memory, output and exit kind are compared; "
                                         "real binary: `lace run` against `lace debug --command <non-mutating script; quit>` with the program's input on stdin (stdout and exit status)",
                       DBG_ASSUME, _dbg_jobs("pure", enum_len=None), replay, mc=_mc_dbg("pure"),
                       replay_b=lambda th: ("Gen_Debugger_pure_deep.cfg" if th else "Gen_Debugger_pure.cfg", 1), extra_fn=_c09_cli_pairs)


def check_C10(replay=None):
    return _run_family("C10", DBG_RULE % "stepping commands: random scripts over step / step into k / step out / continue / break add/remove, plus ALL scripts up to a bounded length over that alphabet on the catalogue",
                       DBG_ASSUME, _dbg_jobs("step", enum_len=2, extra=[("scn", ["--mode", "scenario"])]), replay, mc=_mc_dbg("mut"),
                       replay_b=lambda th: ("Gen_Debugger_deep.cfg" if th else "Gen_Debugger.cfg", 4 if th else 1),
                       extra_fn=lambda chk, th: _env_events(chk, {"xport"}, n=9))


def check_C11(replay=None):
    return _run_family("C11", DBG_RULE % "breakpoint commands (add/remove/list by address, label, PC offset) mixed with every resuming command, on programs with .break in every position and loops revisiting breakpoints; the listed breakpoints must be sorted and duplicate-free",
                       DBG_ASSUME, _dbg_jobs("break", enum_len=2, extra=[("scn", ["--mode", "scenario"])]), replay, mc=_mc_dbg("mut"))


def check_C12(replay=None):
    return _run_family("C12", DBG_RULE % "histories of execution, move, goto, eval and self-modifying stores followed by reset (repeated, and followed by a complete run); after reset the full 65,536-word state must equal the load state",
                       DBG_ASSUME, _dbg_jobs("reset", extra=[("scn", ["--mode", "scenario"])]), replay, mc=_mc_dbg("mut"),
                       replay_b=lambda th: ("Gen_Debugger.cfg", 1 if th else 2), extra_fn=lambda chk, th: (_env_events(chk, {"lastcmd"}), _modepair_events(chk, 24 * SCALE if th else 12)))


def check_C13(replay=None):
    return _run_family("C13", DBG_RULE % "move / goto / break add/remove / print / assembly on absolute, label+-offset and ^offset locations at origin-1, origin, 0x7FFF, 0x8000, 0xFDFF, 0xFE00, 0xFFFF and with offsets +-32767/8",
                       DBG_ASSUME, _dbg_jobs("loc", quick_n=32, extra=[("scn", ["--mode", "scenario"]), ("cmdedge", ["--GEN-CMD--", "--mode", "random", "--n", 100])]), replay, mc=_mc_dbg("mut"),
                       extra_fn=lambda chk, th: _modepair_events(chk, 24 * SCALE if th else 12))


def check_C15(replay=None):
    return _run_family("C15", DBG_RULE % "eval of every register/immediate/base+offset/label-operand form at varying PCs (after goto / step into), refused forms (BR*, RTI, HALT, unknown traps) and malformed text (missing, surplus, wrong-kind operands, directives, two instructions)",
                       DBG_ASSUME + ["literal PC offsets and JSR/JSRR/CALL link values under eval are unspecified and not generated"], _dbg_jobs("eval", quick_n=32, extra=[("scn", ["--mode", "scenario"])]), replay, mc=_mc_dbg("mut"))


def check_C16(replay=None):
    return _run_family("C16", DBG_RULE % "every resuming command issued at PC = 0xFFFF, below the origin, at/above 0xFE00 and parked on HALT (reached by computed jumps, goto, eval jmp), followed by end of input; the run-loop iteration count is bounded by executed instructions + consumed commands (ProgressBound) and the step budget must never be exhausted",
                       DBG_ASSUME, _dbg_jobs("progress", enum_len=2, extra=[("scn", ["--mode", "scenario"])]), replay, mc=_mc_dbg("live"),
                       replay_b=lambda th: ("Gen_Debugger_pure.cfg", 1), extra_fn=_c16_cli_ends)


def _c16_cli_ends(chk, thorough):
    """The real binary, finite scripts, and command streams that END in unusual ways (or cannot be read at all): the session must end."""
    vlib.build(need_cli=True)
    d = _wpath("c16_cli")
    _shutil.rmtree(d, ignore_errors=True)
    os.makedirs(d)
    src = os.path.join(d, "p.asm")
    open(src, "w").write("and r0 r0 #0\nloop add r0 r0 #1\nadd r1 r0 #-5\nbrn loop\nhalt\n")
    events = []
    streams = {"devnull": lambda: open("/dev/null", "rb"), "directory": lambda: os.open(d, os.O_RDONLY), "closed": lambda: None,
               "empty-file": lambda: open(os.path.join(d, "empty"), "w+b"), "no-newline": lambda: _tmpfile(d, b"step;r"), "cr-only": lambda: _tmpfile(d, b"step\rstep\r"),
               "nul": lambda: _tmpfile(d, b"step\x00\nr\n")}
    for tag, mk in streams.items():
        for script in (["--command", "step;print r0"], ["--command", "c"], []):
            fh = mk()
            try:
                kw = {"stdin": fh} if fh is not None else {"stdin": _sp.DEVNULL, "close_fds": True}
                if tag == "closed":
                    kw = {"preexec_fn": lambda: os.close(0)}
                p = _sp.Popen([vlib.LACE_BIN, "debug", "--minimal", src] + script, stdout=_sp.PIPE, stderr=_sp.PIPE, cwd=d, **kw)
                try:
                    p.communicate(timeout=60)
                    ended = True
                except _sp.TimeoutExpired:
                    p.kill()
                    p.communicate()
                    # a loaded machine must not turn into a verdict: once more with a long limit
                    p = _sp.Popen([vlib.LACE_BIN, "debug", "--minimal", src] + script, stdout=_sp.PIPE, stderr=_sp.PIPE, cwd=d, **({"stdin": mk()} if tag != "closed" else kw))
                    try:
                        p.communicate(timeout=180)
                        ended = True
                    except _sp.TimeoutExpired:
                        p.kill()
                        p.communicate()
                        ended = False
            finally:
                if isinstance(fh, int):
                    os.close(fh)
                elif fh is not None:
                    fh.close()
            events.append({"ev": "ends", "tag": "%s:%s" % (tag, " ".join(script[1:]) or "stdin-only"), "ended": ended})
    # the same on a real terminal: lines holding one to four commands are typed, then `quit`: the process must end
    import ptydrive
    for k, lines in enumerate((["r"], ["r;r"], ["r;r;r"], ["step;r;step;r"], [";;"], ["r;r;r", "r;r;r;r"])):
        env = dict(os.environ, NO_COLOR="1", XDG_CACHE_HOME=os.path.join(d, "cache%d" % k), HOME=d, TERM="xterm")
        os.makedirs(env["XDG_CACHE_HOME"], exist_ok=True)
        p = ptydrive.Pty([vlib.LACE_BIN, "debug", "--minimal", src], env)
        seen = p.read_until(ptydrive.at_prompt, limit=30.0)
        for ln in lines + ["quit"]:
            p.send(ln.encode() + b"\r")
            p.read_until(ptydrive.at_prompt, quiet=0.3, limit=3.0)
        st = p.finish(grace=20.0)
        if not seen and st is None:
            raise vlib.ToolError("the debugger's prompt never appeared on the pseudo terminal")
        events.append({"ev": "ends", "tag": "tty:%s" % "|".join(lines), "ended": st is not None})
    # the terminal reader's environment: whatever sits where the history file should be (a named pipe, a directory, a dangling link,
    # bytes that are not UTF-8, a cache directory that is a file or missing) the first prompt appears and `step; quit` ends the session
    def _hist_env(kind, cache):
        hp = os.path.join(cache, ptydrive.HIST_NAME)
        if kind == "cachefile":
            open(cache, "w").write("x")
            return
        if kind == "cachemissing":
            return
        os.makedirs(cache, exist_ok=True)
        if kind == "fifo":
            os.mkfifo(hp)
        elif kind == "dir":
            os.makedirs(hp)
        elif kind == "dangling":
            os.symlink(os.path.join(cache, "nowhere", "h"), hp)
        elif kind == "linkfifo":
            os.mkfifo(os.path.join(cache, "pipe"))
            os.symlink(os.path.join(cache, "pipe"), hp)
        elif kind == "nonutf8":
            open(hp, "wb").write(b"step\n\xff\xfe\nr\n")
        elif kind == "nonewline":
            open(hp, "wb").write(b"step\nregisters")
        elif kind == "readonly":
            open(hp, "w").write("step\n")
            os.chmod(hp, 0o444)
    for kind in ("regular", "fifo", "dir", "dangling", "linkfifo", "nonutf8", "nonewline", "readonly", "cachefile", "cachemissing"):
        cache = os.path.join(d, "hcache_" + kind)
        _hist_env(kind, cache)
        env = dict(os.environ, NO_COLOR="1", XDG_CACHE_HOME=cache, HOME=d, TERM="xterm")
        p = ptydrive.Pty([vlib.LACE_BIN, "debug", "--minimal", src], env)
        seen = p.read_until(ptydrive.at_prompt, limit=30.0)
        if not seen and kind != "regular":
            # a loaded machine must not turn into a verdict: once more, with a long limit
            p.finish(grace=0.5)
            p = ptydrive.Pty([vlib.LACE_BIN, "debug", "--minimal", src], env)
            seen = p.read_until(ptydrive.at_prompt, limit=90.0)
        if kind == "regular" and not seen:
            p.finish(grace=0.5)
            raise vlib.ToolError("the debugger's prompt never appeared on the pseudo terminal")
        if seen:
            for ln in ("step", "quit"):
                p.send(ln.encode() + b"\r")
                p.read_until(ptydrive.at_prompt, quiet=0.3, limit=3.0)
        st = p.finish(grace=20.0 if seen else 1.0)
        events.append({"ev": "ends", "tag": "tty-hist:%s" % kind, "ended": seen and st is not None})
    _cli_validate(chk, events, "ends")
    _shutil.rmtree(d, ignore_errors=True)


def _tmpfile(d, data):
    import tempfile
    f = tempfile.TemporaryFile(dir=d)
    f.write(data)
    f.seek(0)
    return f


# --------------------------------------------------------------------------------------------
# C14  command language
# --------------------------------------------------------------------------------------------

def _c14_key(reason, ev):
    text = (ev.get("text") or "").strip().split(" ")
    if text and text[0] == "sudo":
        return "command-name=sudo"
    if ev["ev"] == "cmd":
        return "cmdline:" + (text[0].lower() if text else "?")
    return _dbg_key(reason, ev, None)


def _transport_events(chk, n, seed):
    """Run the real binary with a script delivered through --command, stdin, and split at every command boundary."""
    import random
    rnd = random.Random(seed)
    d = _wpath("c14_cli")
    os.makedirs(d, exist_ok=True)
    src = os.path.join(d, "t.asm")
    open(src, "w").write("halt\n")
    pieces = ["echo a", " echo b ", "echo  c d", "", "  ", "echo é", "echo 😀x", "echo ✓", "ECHO up", "echo", "bogus", "echo a;b".split(";")[0], "echo tab\tin", "r", "echo \r", "r", "R", "reg", " r", "h",
              # one character from every class of UTF-8 lead byte (C2, D0, DF; E0, ED, EF; F0, F1, F4): the stdin reader cuts its buffer at character boundaries
              "echo \u0080", "echo \u0436\u0434", "echo x\u07ff", "echo \u0800", "echo \ud7ff.", "echo \uffee", "echo \U00040000", "echo \U0010ffff"]
    events = []
    for k in range(n):
        m = rnd.randint(0, 6)
        script = ""
        for i in range(m):
            script += rnd.choice(pieces) + rnd.choice([";", "\n", ";", "\n", ";;", "\n\n", " ;", "\r\n"])
        if rnd.random() < 0.5:
            script += rnd.choice(pieces)
        # command boundaries
        cuts = [0, len(script)] + [i + 1 for i, c in enumerate(script) if c in ";\n"]
        for cut in sorted(set(cuts)):
            arg, stdin = script[:cut], script[cut:]
            argv = ["debug", "--minimal", src]
            if arg != "" or cut == len(script):
                argv += ["--command", arg]
            code, out, err = vlib.run_lace(argv, stdin=stdin.encode())
            # what shows which commands arrived: echoed text, and one marker per register dump
            lines = [("<registers>" if x.startswith("PC x") else x) for x in err.decode("utf-8", "replace").split("\n")
                     if (x.startswith("[") and x.endswith("]")) or x.startswith("PC x")]
            events.append({"ev": "transport", "arg": vlib.chars(arg), "stdin": vlib.chars(stdin), "lines": lines, "code": code,
                           "script": script, "cut": cut})
    return events


# --------------------------------------------------------------------------------------------
# Observations of the real binary in environments the in-process hooks bypass (shared by several checks)
# --------------------------------------------------------------------------------------------

def _env_events(chk, kinds, n=6):
    """kinds: subset of {"tty", "fifo", "featrun", "xport"}; returns Trace_Cli events.
    tty     : GETC fed from a REAL terminal (term.rs read_byte), multi-byte characters typed between ASCII ones
    fifo    : an object file delivered through a named pipe (its size is not known beforehand)
    featrun : a program that executes PUSH/POP words, run under every spelling of -f
    xport   : a script that resumes a program which reads input, through --command and through stdin"""
    import random
    import threading
    vlib.build(need_cli=True)
    rnd = random.Random(chk.seed * 97 + 3)
    d = _wpath("%s_env" % chk.pid.lower())
    _shutil.rmtree(d, ignore_errors=True)
    os.makedirs(d)
    events = []
    if "tty" in kinds:
        import ptydrive
        for k in range(max(2, n // 2)):
            typed = []
            for _ in range(rnd.randint(2, 5)):
                typed.append(rnd.choice(["a", "b", "Z", "0", "\u00e9", "\u2713", "\U0001F600", "q", "\u0436", "\u07ff", "\uffee", "\U0010ffff"]))
            nbytes = sum(len(t.encode()) for t in typed)
            src = "ld r1 n\nloop getc\nputn\nld r0 nl\nout\nadd r1 r1 #-1\nbrp loop\nhalt\nn .fill #%d\nnl .fill x0a\n" % nbytes
            path = os.path.join(d, "tty%d.asm" % k)
            open(path, "w").write(src)
            st, text = ptydrive.tty_input_session(vlib.LACE_BIN, ["run", "--minimal", path], [t.encode() for t in typed])
            body = text.split("Running", 1)[-1]
            got = [int(x) % 65536 for x in _re.findall(r"(?m)^(-?\d+)\r?$", body)]
            events.append({"ev": "ttyin", "tag": "tty%d" % k, "typed": [b for t in typed for b in t.encode()], "got": got, "code": -1 if st is None else st, "src": src})
    if "tty" in kinds:
        # input redirected from a pipe while OUTPUT goes to a terminal: the piped bytes are what GETC reads
        import pty as _pty
        for k, data in enumerate([b"ab", b"x\xc3\xa9y"]):
            src = "ld r1 n\nloop getc\nputn\nld r0 nl\nout\nadd r1 r1 #-1\nbrp loop\nhalt\nn .fill #%d\nnl .fill x0a\n" % len(data)
            path = os.path.join(d, "pipetty%d.asm" % k)
            open(path, "w").write(src)
            m, sl = _pty.openpty()
            p = _sp.Popen([vlib.LACE_BIN, "run", "--minimal", path], stdin=_sp.PIPE, stdout=sl, stderr=sl, env=dict(os.environ, NO_COLOR="1", TERM="xterm"))
            os.close(sl)
            try:
                p.stdin.write(data)
                p.stdin.close()
            except OSError:
                pass
            buf, t0 = b"", time.time()
            while time.time() - t0 < 60:
                import select as _sel
                r, _, _ = _sel.select([m], [], [], 0.2)
                if r:
                    try:
                        got = os.read(m, 65536)
                    except OSError:
                        break
                    if not got:
                        break
                    buf += got
                elif p.poll() is not None:
                    break
            try:
                p.wait(timeout=30)
            except _sp.TimeoutExpired:
                p.kill()
                p.wait()
            os.close(m)
            body = buf.decode("utf-8", "replace").split("Running", 1)[-1]
            got = [int(x) % 65536 for x in _re.findall(r"(?m)^(-?\d+)\r?$", body)]
            events.append({"ev": "ttyin", "tag": "pipe-to-tty%d" % k, "typed": list(data), "got": got, "code": p.returncode if p.returncode is not None else -1, "src": src})
    if "objmin" in kinds:
        # an object file run with --minimal prints what its source run with --minimal prints (REG and an ESC character included)
        src = os.path.join(d, "objmin.asm")
        open(src, "w").write("and r0 r0 #0\nadd r0 r0 #5\nreg\nld r0 esc\nout\nlea r0 msg\nputs\nhalt\nesc .fill x1b\nmsg .stringz \"[1mX\"\n")
        obj = os.path.join(d, "objmin.lc3")
        vlib.run_lace(["compile", src, obj])
        a = vlib.run_lace(["run", "--minimal", src])
        b = vlib.run_lace(["run", "--minimal", obj])
        events.append({"ev": "fifoload", "tag": "objmin", "file": [a[0], _norm_out(a[1], [src])], "fifo": [b[0], _norm_out(b[1], [obj])]})
    if "fifo" in kinds:
        for k, (o, nwords) in enumerate([(0x3000, 1), (0x3000, 5000), (0x0000, 3), (0xFDFF, 1), (0x3000, 7)]):
            data = bytes([o >> 8, o & 0xFF]) + bytes([0xF0, 0x25]) * nwords
            if k == 4:
                # a program that prints something, so that a misaligned load shows: LEA R0,#2; PUTS; HALT; "ok"
                data = bytes([0x30, 0x00, 0xE0, 0x02, 0xF0, 0x22, 0xF0, 0x25, 0x00, 0x6F, 0x00, 0x6B, 0x00, 0x00])
            reg = os.path.join(d, "reg%d.lc3" % k)
            open(reg, "wb").write(data)
            a = vlib.run_lace(["run", "--minimal", reg])
            ff = os.path.join(d, "fifo%d.lc3" % k)
            os.mkfifo(ff)

            def feed(path=ff, data=data, odd=(k == 4)):
                try:
                    with open(path, "wb", buffering=0) as f:
                        if odd:
                            # the bytes arrive in pieces of odd length, with pauses
                            f.write(data[:3])
                            time.sleep(0.3)
                            f.write(data[3:8])
                            time.sleep(0.3)
                            f.write(data[8:])
                        else:
                            f.write(data)
                except OSError:
                    pass
            t = threading.Thread(target=feed, daemon=True)
            t.start()
            b = vlib.run_lace(["run", "--minimal", ff], timeout=60)
            t.join(5)
            events.append({"ev": "fifoload", "tag": "fifo%d" % k, "file": [a[0], _norm_out(a[1], [reg])], "fifo": [b[0], _norm_out(b[1], [ff])]})
    if "featrun" in kinds:
        src = os.path.join(d, "feat.asm")
        # PUSH R1 / POP R2 as raw words: needs no lexer support, only the run-time gate
        open(src, "w").write("and r1 r1 #0\nadd r1 r1 #7\n.fill xD440\n.fill xD080\nhalt\n")
        for v in ["stack", "stack,", ",stack", ",,stack,,", "", ","]:
            code, out, err = vlib.run_lace(["run", "--minimal", "-f", v, src])
            events.append({"ev": "featrun", "tag": "-f " + v, "value": vlib.chars(v), "code": code})
    if "lastcmd" in kinds:
        # the last command of a script on stdin counts whether or not a line break follows it
        src = os.path.join(d, "last.asm")
        open(src, "w").write("putn\nhalt\n")
        for k, (body, last) in enumerate([("move r0 5\n", "reset"), ("move r0 5\n", "z"), ("", "move r0 7"), ("move r0 5;", "reset"), ("move r0 5\nreset\n", "move r0 9"),
                                          ("move r0 5\n", "eval add r0 r0 #1"), ("move r0 5\n", "goto x3001")]):
            a = vlib.run_lace(["debug", "--minimal", src], stdin=(body + last + "\n").encode())
            b = vlib.run_lace(["debug", "--minimal", src], stdin=(body + last).encode())
            view = lambda r: [r[0], _norm_out(r[1], [src]).replace("\n", ""), []]
            events.append({"ev": "xport", "tag": "last%d" % k, "arg": view(a), "stdin": view(b), "script": body + last, "src": "putn halt"})
    if "xport" in kinds:
        events += _xport_events(chk, n, chk.seed + 11)
    _cli_validate(chk, events, "env")
    _shutil.rmtree(d, ignore_errors=True)
    return events


def _modepair_events(chk, n):
    """The same mutating script run with and without --minimal: the values that print / registers show must be the same (the decorated
    output is produced by other code than the plain one; nothing in it may touch the machine)."""
    import random
    vlib.build(need_cli=True)
    rnd = random.Random(chk.seed * 53 + 7)
    d = _wpath("%s_modepair" % chk.pid.lower())
    _shutil.rmtree(d, ignore_errors=True)
    os.makedirs(d)
    progs = ["add r0 r0 #5\nst r0 x\nld r1 x\nadd r1 r1 r1\nst r1 y\nhalt\nx .fill x1234\ny .fill #7\n",
             "lea r2 t\nldr r3 r2 #0\nstr r3 r2 #1\nadd r3 r3 #1\nstr r3 r2 #-1\nhalt\nt .fill x00aa\nu .fill x00bb\n",
             ".orig x4000\nand r0 r0 #0\nloop add r0 r0 #1\nst r0 slot\nadd r1 r0 #-3\nbrn loop\nhalt\nslot .fill #0\n"]
    labels = [["x", "y"], ["t", "u"], ["slot", "loop"]]
    events = []
    for k in range(n):
        pi = k % len(progs)
        src = os.path.join(d, "m%d.asm" % pi)
        open(src, "w").write(progs[pi])
        cmds = []
        for _ in range(rnd.randint(4, 10)):
            lab = rnd.choice(labels[pi])
            cmds.append(rnd.choice(["step", "step into 2", "step into 3", "continue", "print " + lab, "print r0", "print r1", "print ^", "registers", "assembly", "assembly " + lab,
                                    "assembly ^1", "reset", "move r2 x%x" % rnd.randint(0, 65535), ("move %s x%x" % (lab, rnd.randint(0, 65535))) if pi < 2 else "print r2", "break list",
                                    "break add " + lab, "eval add r0 r0 #1", "echo m", "help"]))
        cmds += ["print " + labels[pi][0], "registers", "reset", "print " + labels[pi][-1], "registers", "exit"]
        script = ";".join(cmds)
        a = vlib.run_lace(["debug", "--minimal", src, "--command", script])
        b = vlib.run_lace(["debug", src, "--command", script], env_extra={"NO_COLOR": "1"})

        def values_min(r):
            out = []
            for ln in (r[1] + r[2]).decode("utf-8", "replace").split("\n"):
                m = _re.match(r"^x([0-9a-f]{4})$", ln) or _re.match(r"^R\d x([0-9a-f]{4})$", ln) or _re.match(r"^PC x([0-9a-f]{4})$", ln)
                if m:
                    out.append(int(m.group(1), 16))
                m = _re.match(r"^CC ([01]{3})$", ln)
                if m:
                    out.append(int(m.group(1), 2))
            return out

        def values_full(r):
            out = []
            text = _re.sub(r"\x1b\[[0-9;]*m", "", (r[1] + r[2]).decode("utf-8", "replace"))
            for ln in text.split("\n"):
                m = _re.match(r"^\u2502 0x([0-9a-f]{4}) ", ln) or _re.match(r"^\u2502 R\d  0x([0-9a-f]{4}) ", ln)
                if m:
                    out.append(int(m.group(1), 16))
                m = _re.match(r"^\u2502 +PC 0x([0-9a-f]{4}) +\u2502 +CC +([01]{3}) ", ln)
                if m:
                    out.append(int(m.group(1), 16))
                    out.append(int(m.group(2), 2))
            return out
        if a[0] == -1 and b[0] == -1:
            continue          # the script made the program loop in both modes: nothing to compare
        events.append({"ev": "modepair", "tag": "m%d" % k, "min": [a[0], values_min(a)], "full": [b[0], values_full(b)], "script": script, "src": progs[pi]})
    _cli_validate(chk, events, "modepair")
    _shutil.rmtree(d, ignore_errors=True)


def _xport_events(chk, n, seed):
    """A script that RESUMES a program which reads input: through --command (program input alone on stdin) and through stdin, where each byte
    the program reads sits right behind the command during which it is read (the reader must not read ahead). Both runs must look the same."""
    import random
    rnd = random.Random(seed * 31 + 5)
    d = _wpath("c14_xport")
    os.makedirs(d, exist_ok=True)
    # (source, instruction index -> reads one input byte)
    progs = [("getc\nout\ngetc\nout\nhalt\n", {0, 2}),
             ("getc\ngetc\nout\nadd r1 r0 #0\ngetc\nout\nhalt\n", {0, 1, 4}),
             ("add r2 r2 #1\ngetc\nout\nhalt\n", {1})]
    events = []
    for k in range(n):
        src, reads = progs[k % len(progs)]
        path = os.path.join(d, "x%d.asm" % (k % len(progs)))
        open(path, "w").write(src)
        ninstr = src.count("\n")
        inputs = [rnd.choice("ABxyz09") for _ in reads]
        # commands: stepping (knows how many instructions it executes) and inspection, then registers and quit
        cmds, at = [], 0
        while at < ninstr - 1 and len(cmds) < 8:
            c = rnd.choice(["step", "s", "step into 2", "si 3", "r", "p r0", "echo hi", "step into"])
            adv = {"step": 1, "s": 1, "step into": 1, "step into 2": 2, "si 3": 3}.get(c, 0)
            adv = min(adv, ninstr - 1 - at)          # stepping stops at HALT
            cmds.append((c, [i for i in range(at, at + adv) if i in reads]))
            at += adv
        tail = rnd.choice([["registers", "quit"], ["r", "q"], ["registers"], []])
        it = iter(inputs)
        given = {}
        for c, rd in cmds:
            for i in rd:
                given[i] = next(it)
        rest = [b for b in it]                      # read after the session has detached (quit / end of input)
        # through --command
        script_arg = ";".join(c for c, _ in cmds) + "".join(";" + t for t in tail)
        if not tail or tail[-1] not in ("quit", "q"):
            script_arg += ";quit"                    # (with --command the reader would otherwise go on to stdin)
        a = vlib.run_lace(["debug", "--minimal", path, "--command", script_arg], stdin="".join(inputs).encode())
        # through stdin, inputs interleaved
        term = rnd.choice(["\n", ";", "\n", "\r\n"])
        stream = ""
        for c, rd in cmds:
            stream += c + (term if term != "\r\n" or not rd else "\n") + "".join(given[i] for i in rd)
        for t in tail:
            stream += t + "\n"
        if not tail or tail[-1] not in ("quit", "q"):
            stream += "quit\n"
        stream += "".join(rest)
        b = vlib.run_lace(["debug", "--minimal", path], stdin=stream.encode())

        def view(r):
            regs = [x for x in r[2].decode("utf-8", "replace").split("\n") if len(x) > 3 and x[0] == "R" and x[1].isdigit()]
            return [r[0], _norm_out(r[1], [path]).replace("\n", ""), regs]
        events.append({"ev": "xport", "tag": "x%d" % k, "arg": view(a), "stdin": view(b), "script": stream, "src": src})
    return events


def check_C14(replay=None):
    chk = Check("C14")
    chk.rule = ("case = command line; tokens: EVERY string up to a bounded length over {+ - # x o b 0 1 7 9 a f g ^ r _} as the argument of `move r1 T`, `goto T`, `print T` "
                "in a real debugger session (the value in R1 / the new PC / the printed word reveal the parse); names: every command name, alias and listed misspelling in three letter cases with argument lists of every arity; "
                "random longer tokens incl. i32/u16/i16 edges in each radix and multi-byte characters; Trace_Debug.tla parses the raw line with CmdLang!ParseLine and the observed effect and output must be that command's. "
                "transports: scripts split between --command and stdin at every command boundary through the real binary; echoed lines must equal CmdLang!Deliver. distinct = command lines")
    chk.assumptions = ["J8: the `sudo` easter egg is a listed known finding", "eval text is not parsed by CmdLang (C15 covers eval)"]
    vlib.build(need_cli=True)
    if replay:
        raise vlib.ToolError("re-run `bin/check C14`; the replay file holds the failing session")
    thorough = chk.tier == "thorough"
    res = tlc_mc("MC_CmdLang", "MC_CmdLang_deep.cfg" if thorough else "MC_CmdLang.cfg", workers=8, coverage=False)
    chk.add_mc(res, "MC_CmdLang")
    jobs = []
    L = 4 if thorough else 3
    parts = 8 if thorough else 4
    for ph in range(parts):
        jobs.append(("tok%d" % ph, ["gen", "cmd", "--mode", "tokens", "--len", L, "--stride", parts, "--phase", ph, "--seed", chk.seed]))
    jobs.append(("names", ["gen", "cmd", "--mode", "names", "--seed", chk.seed]))
    for k in range(4 if thorough else 1):
        jobs.append(("rnd%d" % k, ["gen", "cmd", "--mode", "random", "--n", 3000 * SCALE if thorough else 600, "--seed", chk.seed * 5 + k]))

    def gen(job):
        name, args = job
        out = _wpath("c14_%s.ndjson" % name)
        summ = harness(args + ["--out", out])
        return out, summ, tlc_trace("Trace_Debug", out, timeout=2400)
    ncmd = 0
    for out, summ, res in parallel(gen, jobs, 8):
        chk.add_trace(res, summ.get("sessions", 0))
        ncmd += res["nrec"]
        if res["consumed"] != res["nrec"]:
            raise vlib.ToolError("Trace_Debug consumed %s of %s events" % (res["consumed"], res["nrec"]))
        for i in sorted(res["bad"]):
            sess = _session_of(out, i)
            ev = sess[-1]
            chk.violation(_c14_key(res["bad"][i], ev), "command line %r: observed effect/output is not that of CmdLang!ParseLine's command: %s" %
                          (ev.get("text"), json.dumps(_slim_ev(ev))[:300]), {"family": "cmd", "events": [_slim_ev(e) for e in sess[-3:]]})
        if not chk.samples:
            chk.samples = [_slim_ev(e) for e in vlib.sample_lines(out, 14)[-2:]]
        os.remove(out)
    # transports
    tev = _transport_events(chk, 60 * SCALE if thorough else 12, chk.seed)
    tev += _xport_events(chk, 30 * SCALE if thorough else 12, chk.seed)
    tpath = _wpath("c14_transport.ndjson")
    with open(tpath, "w") as f:
        for e in tev:
            f.write(json.dumps(e) + "\n")
    res = tlc_trace("Trace_Cli", tpath)
    chk.add_trace(res, len(tev))
    for i in sorted(res["bad"]):
        e = tev[i - 1]
        if e["ev"] == "xport":
            chk.violation("transport:program-input", "script %r: --command run %r, stdin run %r" % (e["script"], e["arg"], e["stdin"]), {"family": "cli", "events": [e]})
            continue
        chk.violation("transport", "script %r split at %d: echoed %r" % (e["script"], e["cut"], e["lines"]), {"family": "cli", "events": [e]})
    chk.samples.append(tev[len(tev) // 2])
    chk.evaluations = ncmd + len(tev)
    chk.distinct = max(chk.distinct, 2)
    return chk.finish()


# --------------------------------------------------------------------------------------------
# Command-line checks: C06, C07, C08, C18 (Trace_Cli.tla)
# --------------------------------------------------------------------------------------------
import re as _re
import shutil as _shutil
import subprocess as _sp


def _files(chk, fam, n):
    d = _wpath("%s_files_%s" % (chk.pid.lower(), fam))
    _shutil.rmtree(d, ignore_errors=True)
    man = _wpath("%s_files_%s.ndjson" % (chk.pid.lower(), fam))
    harness(["gen", "files", "--fam", fam, "--n", n, "--seed", chk.seed, "--dir", d, "--out", man])
    return d, [json.loads(l) for l in open(man)]


def _flag(stack):
    return ["-f", "stack"] if stack else []


def _cli_validate(chk, events, name, soft=None):
    """soft: an event kind whose rejections are NOT verdicts about the property (the code no longer follows the modelled protocol while
    the property may well hold); they are returned, for the evidence, instead of being reported."""
    path = _wpath("%s_%s.ndjson" % (chk.pid.lower(), name))
    with open(path, "w") as f:
        for e in events:
            f.write(json.dumps(e) + "\n")
    res = tlc_trace("Trace_Cli", path)
    chk.add_trace(res, len(events))
    chk.evaluations += len(events)
    if res["consumed"] != res["nrec"]:
        raise vlib.ToolError("Trace_Cli consumed %s of %s events" % (res["consumed"], res["nrec"]))
    softs = []
    for i in sorted(res["bad"]):
        e = events[i - 1]
        slim = {k: v for k, v in e.items() if k not in ("ast", "bytes", "after", "before")}
        if soft and e["ev"] == soft:
            softs.append(slim)
            continue
        chk.violation("%s:%s" % (e["ev"], e.get("tag", "")), "observation of the real binary not allowed by Trace_Cli: %s" % json.dumps(slim)[:400],
                      {"family": "cli", "events": [e]})
    return softs if soft else path


def _norm_out(b, paths):
    t = b.decode("utf-8", "replace")
    for p in paths:
        t = t.replace(p, "<file>")
    return t


LOADER_MSGS = ("provided file is empty", "too long and cannot fit", "not aligned to 16 bits")


def check_C06(replay=None):
    chk = Check("C06")
    chk.rule = ("compile: seeded multi-label programs + catalogue compiled by the real binary, file bytes must equal big-endian [origin or 0x3000] ++ Assembler!Image; runpair: executable programs (catalogue + seeded, with input) "
                "run from source and from the compiled object file, stdout (file names masked) and exit status must be equal; loadfile: byte files of every length parity, empty, with first words and lengths that put the image end "
                "at 0xFFFE / 0xFFFF / 0x10000, must be refused exactly when they do not fit, never with a crash. distinct = files")
    chk.assumptions = ["file contents for the loader test are HALT words (what matters is length and first word)"]
    vlib.build(need_cli=True)
    thorough = chk.tier == "thorough"
    res = tlc_mc("MC_Machine", "MC_Machine.cfg", workers=8, coverage=False)
    chk.add_mc(res, "MC_Machine(loader)")
    events = []
    # (1) compile
    d, man = _files(chk, "compile", 400 * SCALE if thorough else 60)

    def comp(c):
        dest = c["path"][:-4] + ".lc3"
        # what is at the destination beforehand must not matter: nothing, a shorter file, a much longer one
        pre = sum(c["path"].encode()) % 4
        if pre:
            open(dest, "wb").write(b"\xaa" * (3 if pre == 1 else 300000))
        if pre == 3:
            # ... and the old file has a second name (hard link)
            other = dest + ".link"
            if os.path.lexists(other):
                os.remove(other)
            os.link(dest, other)
        code, out, err = vlib.run_lace(["compile"] + _flag(c["stack"]) + [c["path"], dest])
        b = list(open(dest, "rb").read(200000)) if code == 0 and os.path.exists(dest) else []
        return {"ev": "compile", "tag": c["tag"] + ":" + ("absent", "short", "long", "long-hardlink")[pre], "ast": c["ast"], "stack": c["stack"], "code": code, "bytes": b, "src": c["src"]}
    events += parallel(comp, man, 8)
    # (2) run from source vs from object file
    d2, man2 = _files(chk, "exec", 150 * SCALE if thorough else 24)

    def pair(c):
        dest = c["path"][:-4] + ".lc3"
        code, out, err = vlib.run_lace(["compile"] + _flag(c["stack"]) + [c["path"], dest])
        inp = bytes(c["input"])
        a = vlib.run_lace(["run", "--minimal"] + _flag(c["stack"]) + [c["path"]], stdin=inp)
        if code != 0:
            return {"ev": "runpair", "tag": c["tag"], "asm": [a[0], "no-object"], "obj": [code, "compile-failed"], "full": [a[0], "no-object"], "src": c["src"]}
        o = vlib.run_lace(["run", "--minimal"] + _flag(c["stack"]) + [dest], stdin=inp)
        # without --minimal the program's own output is the same text (the REG trap has a different, tabular format)
        uses_reg = any(it["k"] == "reg" for it in c["ast"])
        f = vlib.run_lace(["run"] + _flag(c["stack"]) + [c["path"]], stdin=inp) if not uses_reg else a
        return {"ev": "runpair", "tag": c["tag"], "asm": [a[0], _norm_out(a[1], [c["path"]])], "obj": [o[0], _norm_out(o[1], [dest])],
                "full": [f[0], _norm_out(f[1], [c["path"]])], "src": c["src"]}
    pairs = parallel(pair, man2, 8)
    # programs that do not assemble have no object file: nothing to compare
    events += [p for p in pairs if p["obj"][1] != "compile-failed"]
    # (3) loader
    ld = _wpath("c06_load")
    _shutil.rmtree(ld, ignore_errors=True)
    os.makedirs(ld)
    specs = [(0, None)]
    for nbytes in (1, 2, 3, 4, 5, 7):
        for o in (0x3000, 0x0000, 0xFFFF, 0xFDFF, 0xFE00):
            specs.append((nbytes, o))
    for o in (0x0000, 0x3000, 0x8000, 0xFDFF, 0xFE00, 0xFFF0, 0xFFFE, 0xFFFF):
        for end in (0xFFFD, 0xFFFE, 0xFFFF, 0x10000, 0x10001):   # address one past the last image word
            n = end - o
            if n >= 0:
                specs.append((2 * (n + 1), o))
                specs.append((2 * (n + 1) + 1, o))

    def loadf(spec):
        nbytes, o = spec
        name = os.path.join(ld, "f_%d_%s.lc3" % (nbytes, "x" if o is None else "%04x" % o))
        data = b""
        if nbytes > 0:
            data = bytes([o >> 8, o & 0xFF]) + bytes([0xF0, 0x25]) * (nbytes // 2)
            data = data[:nbytes]
        open(name, "wb").write(data)
        ext = name if nbytes % 5 else name[:-4] + ".obj"
        if ext != name:
            os.rename(name, ext)
        code, out, err = vlib.run_lace(["run", "--minimal", ext], timeout=30)
        os.remove(ext)
        e = err.decode("utf-8", "replace")
        return {"ev": "loadfile", "tag": "len%d" % nbytes, "len": nbytes, "o": o if o is not None else 0, "code": code,
                "refused": any(m in e for m in LOADER_MSGS)}
    events += parallel(loadf, specs, 8)
    for flag in ([], ["-f", "stack"]):
        for o, nwords in ((0x0000, 0xFDFF), (0x0000, 0xFE00), (0x0001, 0xFDFE), (0x3000, 0xCDFF), (0x3000, 0xCE00)):
            name = os.path.join(ld, "cover_%04x_%d_%d.lc3" % (o, nwords, len(flag)))
            # [origin] BR-never words ... HALT as first word so that the run stops at once
            open(name, "wb").write(bytes([o >> 8, o & 0xFF]) + bytes([0xF0, 0x25]) + bytes([0x00, 0x00]) * (nwords - 1))
            code, out, err = vlib.run_lace(["run", "--minimal"] + flag + [name], timeout=60)
            os.remove(name)
            e = err.decode("utf-8", "replace")
            events.append({"ev": "loadfile", "tag": "cover:%04x:%d:%s" % (o, nwords, "stack" if flag else "plain"), "len": 2 * (nwords + 1), "o": o, "code": code,
                           "refused": any(m in e for m in LOADER_MSGS)})
    # (3b) the same bytes through a named pipe
    _env_events(chk, {"fifo"})
    # (3c) the implicit HALT behind the image is there whatever the image's own last word is: images that jump to the word after their end
    for tag, words in (("ends-in-halt", [0xE002, 0xC000, 0xF025]), ("ends-in-data", [0xE002, 0xC000, 0x1234]), ("br-over-halt", [0x5020, 0x0401, 0xF025]),
                       ("single-jump", [0xE001, 0xC000])):
        # E002 LEA R0,#2 ; C000 JMP R0 -> the word after a 3-word image. 5020 AND R0,R0,#0 ; 0401 BRz #1 -> over the final HALT. E001 LEA R0,#1; C000 JMP R0 -> x3002
        name = os.path.join(ld, "jump_%s.lc3" % tag)
        open(name, "wb").write(bytes([0x30, 0x00]) + b"".join(bytes([w >> 8, w & 0xFF]) for w in words))
        code, out, err = vlib.run_lace(["run", "--minimal", name], timeout=60)
        events.append({"ev": "loadrun", "tag": tag, "code": code, "halted": b"Halted" in out})
    # (4) sub-command / extension dispatch (spec growth beyond the listed property)
    dd = _wpath("c06_dispatch")
    _shutil.rmtree(dd, ignore_errors=True)
    os.makedirs(dd)
    open(os.path.join(dd, "p.asm"), "w").write("halt\n")
    vlib.run_lace(["compile", os.path.join(dd, "p.asm"), os.path.join(dd, "p.lc3")])
    _shutil.copy(os.path.join(dd, "p.lc3"), os.path.join(dd, "p.obj"))
    _shutil.copy(os.path.join(dd, "p.asm"), os.path.join(dd, "p.txt"))
    _shutil.copy(os.path.join(dd, "p.asm"), os.path.join(dd, "p"))
    _shutil.copy(os.path.join(dd, "p.asm"), os.path.join(dd, "p.ASM"))
    for cmd in ("run", "bare", "debug"):
        for fn, ext, exists in (("p.asm", "asm", True), ("p.lc3", "lc3", True), ("p.obj", "obj", True), ("p.txt", "txt", True), ("p", "", True),
                                ("p.ASM", "ASM", True), ("missing.asm", "asm", False), ("missing.lc3", "lc3", False)):
            path = os.path.join(dd, fn)
            argv = {"run": ["run", "--minimal", path], "bare": [path, "--minimal"], "debug": ["debug", "--minimal", path, "--command", "quit"]}[cmd]
            code, out, err = vlib.run_lace(argv)
            events.append({"ev": "dispatch", "tag": "%s:%s" % (cmd, fn), "cmd": cmd, "ext": ext, "exists": exists, "code": code, "ran": b"Running" in out})
    _cli_validate(chk, events, "cli")
    chk.distinct = max(chk.distinct, 2)
    chk.samples = [{k: v for k, v in events[0].items() if k != "ast"}, events[len(man) + 1], events[-1]]
    _shutil.rmtree(d, ignore_errors=True)
    _shutil.rmtree(d2, ignore_errors=True)
    return chk.finish()


def _watch_smoke(chk):
    """Drive a real `lace watch`: rewrite the watched file and look at what each re-check prints."""
    import select
    import time as _t
    d = _wpath("%s_watch" % chk.pid.lower())
    _shutil.rmtree(d, ignore_errors=True)
    os.makedirs(d)
    f = os.path.join(d, "w.asm")
    PAD = 96

    def put(text):
        # one write() of a fixed-size buffer over the old content, no truncation: a reader sees the old text or the new one, never a mixture
        data = text.encode() + b"\n" * (PAD - len(text))
        fd = os.open(f, os.O_WRONLY | os.O_CREAT)
        try:
            os.write(fd, data)
        finally:
            os.close(fd)

    def listen(p, quiet, limit, want_recheck):
        """collect output until it has been quiet for `quiet` seconds (and, if asked, a complete re-check was seen) or `limit` is over"""
        buf, t0, last = b"", _t.time(), _t.time()
        while _t.time() - t0 < limit:
            r, _, _ = select.select([p.stdout], [], [], 0.2)
            if r:
                got = p.stdout.read() or b""
                if got:
                    buf += got
                    last = _t.time()
            complete = any(b"no errors found" in seg or b"\xc3\x97" in seg or b"Error" in seg for seg in buf.split(b"Re-checking")[1:])
            if _t.time() - last >= quiet and (complete or not want_recheck):
                break
        return buf

    put("halt\n")
    # every text defines labels the NEXT text defines again: state left behind by a re-check (failed or not) would show
    phases = [("ok0", "m halt\nfar add r0 r0 #1\n", True, []),
              ("far", "m halt\nld r0 far\n.blkw #300\nfar halt\n", False, []),
              ("ok", "far halt\nm add r0 r0 #1\n", True, []),
              ("undefined", "far halt\nm ld r0 nowhere\n", False, []),
              ("ok2", "far lea r0 m\nputs\nhalt\nm .stringz \"x\"\n", True, []),
              ("lexerr", "far halt\nm .strngz \"x\"\n", False, []),
              ("ok3", "far halt\nm halt\n", True, []),
              # the same warning must come every time (a negative .blkw count is accepted with a warning)
              # (valid = None: the verdict of a fresh `lace check` is taken as the reference for these)
              ("warn1", "far halt\nm .blkw #-3\n", None, []),
              ("warn2", ".blkw #-3\nm halt\n", None, []),
              ("warn3", "far halt\nm .blkw #-3\n.blkw #-2\n", None, []),
              # a warning printed by a text that then fails; nothing of it may show up in the next re-check
              ("warnfail", ".blkw #-3\nfar add r0 r0 $1\n", None, []),
              ("ok5", "far halt\n", True, []),
              ("origfar", ".orig x4000\nfar halt\nm ld r0 v\n.blkw #300\nv halt\n", None, []),
              ("noorigfar", "far ld r0 v\n.blkw #300\nv halt\n", None, [])]
    events = []
    for flags, extra in (([], [("stack-off", "far halt\npush r1\n", False, []), ("ok4", "far halt\n", True, [])]), (["-f", "stack"], [("stack-on", "far halt\nm push r1\n", True, []), ("ok4", "m halt\n", True, [])])):
        put("far halt\nm halt\n")
        try:
            p = _sp.Popen([vlib.LACE_BIN, "watch"] + flags + [f], stdout=_sp.PIPE, stderr=_sp.STDOUT, cwd=d)
        except Exception:
            return events
        try:
            os.set_blocking(p.stdout.fileno(), False)
            listen(p, 1.2, 10, False)              # start-up output
            for name, text, valid, _ in phases + extra:
                listen(p, 0.8, 10, False)          # nothing pending from the previous phase
                put(text)
                buf = listen(p, 0.8, 8, True)
                # verdict of the last COMPLETE re-check printed (each re-check reads the file as it is now: the new text)
                seen = "none"
                for seg in buf.split(b"Re-checking")[1:]:
                    if b"no errors found" in seg:
                        seen = "success"
                    elif b"\xc3\x97" in seg or b"Error" in seg:
                        seen = "error"
                # what a fresh `lace check` of the same text prints, as far as warnings go
                nwarn = -1
                for seg in buf.split(b"Re-checking")[1:]:
                    if b"no errors found" in seg or b"\xc3\x97" in seg or b"Error" in seg:
                        nwarn = seg.count(b"\xe2\x9a\xa0")
                fresh = vlib.run_lace(["check"] + flags + [f])
                if valid is None:
                    valid = fresh[0] == 0
                events.append({"ev": "watch", "tag": name + ("+stack" if flags else ""), "valid": valid, "seen": seen, "exited": p.poll() is not None,
                               "warnings": nwarn, "fresh_warnings": (fresh[1] + fresh[2]).count(b"\xe2\x9a\xa0"), "fresh_ok": fresh[0] == 0})
        finally:
            p.kill()
            p.wait()
    chk.extra["watch_rechecks_observed"] = sum(1 for e in events if e["seen"] != "none")
    return events


def check_C07(replay=None):
    chk = Check("C07")
    chk.rule = ("case = source file (boundary-value matrix of C04, an out-of-range label reference at every statement position for every PC-relative instruction, stack-mnemonic programs, catalogue) x feature flag value; "
                "`lace check`, `lace compile`, `lace run` of the real binary are run on it (every program halts at once); their verdicts must all equal Assembler!Accepts and none may panic. distinct = (file, flag) pairs")
    chk.assumptions = ["run's verdict: exit status 1 = diagnostic from the assembler (0 = ran and halted, 0xEE = assembled but the image does not fit at its origin)", "`lace watch` is driven through one real session of in-place rewrites; a re-check that is not observed in time is recorded as such, never counted as agreement"]
    vlib.build(need_cli=True)
    thorough = chk.tier == "thorough"
    for cfg in ["MC_Assembler_nostack.cfg"] + (["MC_Assembler.cfg"] if thorough else []):
        chk.add_mc(tlc_mc("MC_Assembler", cfg, workers=8, coverage=False), cfg)
    d, man = _files(chk, "agree", 200 if thorough else 20)
    jobs = [(c, f) for c in man for f in (True, False)]

    def agree(job):
        c, f = job
        dest = c["path"][:-4] + (".on" if f else ".off") + ".lc3"
        ck = vlib.run_lace(["check"] + _flag(f) + [c["path"]])
        cp = vlib.run_lace(["compile"] + _flag(f) + [c["path"], dest])
        rn = vlib.run_lace(["run", "--minimal"] + _flag(f) + [c["path"]])
        return {"ev": "agree", "tag": c["tag"], "ast": c["ast"], "stack": f, "check": ck[0] == 0, "compile": cp[0] == 0,
                "run": rn[0] != 1 and rn[0] != 101, "panic": any(x[0] in (101, -1) or x[0] < -1 for x in (ck, cp, rn)),
                "codes": [ck[0], cp[0], rn[0]], "src": c["src"]}
    events = parallel(agree, jobs, 8)
    # sources that are not valid UTF-8 (a stray Latin-1 byte in a comment, in a string, in code): nobody may accept what the others refuse
    for k, raw in enumerate([b"halt ; caf\xe9\n", b"halt\n.stringz \"caf\xe9\"\n", b"halt\nl\xe9 add r0 r0 r0\n", b"\xff\xfehalt\n", b"halt\n; \xc3\n", b"halt\n;\xf0\x9f\x98\n",
                             b"\xef\xbb\xbfhalt\n", b"\xef\xbb\xbf; c\nhalt\n", b"halt\n\x00\n", b"halt\n\x1a"]):
        pth = os.path.join(d, "raw%d.asm" % k)
        open(pth, "wb").write(raw)
        for f in (False, True):
            ck = vlib.run_lace(["check"] + _flag(f) + [pth])
            cp = vlib.run_lace(["compile"] + _flag(f) + [pth, pth[:-4] + ".lc3"])
            rn = vlib.run_lace(["run", "--minimal"] + _flag(f) + [pth])
            events.append({"ev": "agree_raw", "tag": "raw%d" % k, "check": ck[0] == 0, "compile": cp[0] == 0, "run": rn[0] != 1 and rn[0] != 101,
                           "panic": any(x[0] in (101, -1) or x[0] < -1 for x in (ck, cp, rn)), "codes": [ck[0], cp[0], rn[0]]})
    events += _watch_smoke(chk)
    _cli_validate(chk, events, "agree")
    chk.distinct = max(chk.distinct, 2)
    chk.samples = [{k: v for k, v in events[0].items() if k != "ast"}, {k: v for k, v in events[-1].items() if k != "ast"}]
    _shutil.rmtree(d, ignore_errors=True)
    return chk.finish()


_STRACE_OK = None


def _strace_ok():
    global _STRACE_OK
    if _STRACE_OK is None:
        try:
            r = _sp.run(["strace", "-f", "-e", "trace=openat", "-o", "/dev/null", "true"], stdout=_sp.PIPE, stderr=_sp.PIPE, timeout=20)
            _STRACE_OK = r.returncode == 0
        except Exception:
            _STRACE_OK = False
    return _STRACE_OK


def _compile_syscalls(log, marker, dest):
    """strace log of `lace compile` -> (number of create/truncate opens of the destination or its siblings, events for Compile!Step)."""
    import re as _r
    pat = _r.compile(r'^\d+\s+(\w+)\((.*)\)\s+=\s+(-?\d+|\?)')
    roles = {}
    opens = 0
    evs = []
    dest_s = dest if isinstance(dest, str) else None
    for line in open(log, errors="replace"):
        m = pat.match(line)
        if not m:
            continue
        call, args, ret = m.group(1), m.group(2), m.group(3)
        ok = ret != "?" and int(ret) >= 0
        if call in ("openat", "open", "creat"):
            q = _r.search(r'"((?:[^"\\]|\\.)*)"', args)
            path = q.group(1) if q else ""
            mine = marker in path or (dest_s is not None and path.startswith(dest_s))
            writing = call == "creat" or any(f in args for f in ("O_CREAT", "O_TRUNC", "O_WRONLY", "O_RDWR"))
            if mine and writing:
                opens += 1
                role = "tmp" if path.endswith(".tmp") else "dest"
                if ok:
                    roles[int(ret)] = role
                evs.append({"op": "open_" + role, "ok": ok, "code": 0})
        elif call == "write":
            fd = int(args.split(",")[0]) if args.split(",")[0].strip().isdigit() else -1
            if fd == 1:
                evs.append({"op": "msg", "ok": ok, "code": 0})
            elif fd in roles:
                evs.append({"op": "write_" + roles[fd], "ok": ok, "code": 0})
        elif call in ("rename", "renameat", "renameat2"):
            if marker in args or (dest_s is not None and dest_s in args):
                evs.append({"op": "rename", "ok": ok, "code": 0})
        elif call in ("unlink", "unlinkat"):
            if marker in args or (dest_s is not None and dest_s in args):
                evs.append({"op": "unlink_tmp", "ok": ok, "code": 0})
        elif call == "exit_group":
            code = int(args.strip()) if args.strip().lstrip("-").isdigit() else -1
            evs.append({"op": "exit", "ok": True, "code": code})
    return opens, evs


def _c08_pipegone(c, dest, base, dk="absent-pipegone"):
    """stdout is a pipe; its reader reads the first message and leaves BEFORE the source can be assembled (the source comes through a FIFO
    that is only fed afterwards): every later message hits a broken pipe."""
    import threading
    fifo = base + ".src.asm"
    os.mkfifo(fifo)
    if dk == "absent-ptygone":
        # the same with a terminal: once the master side is closed every write to the slave fails with EIO
        import pty as _pty
        r, w = _pty.openpty()
    else:
        r, w = os.pipe()
    p = _sp.Popen([vlib.LACE_BIN, "compile"] + _flag(c["stack"]) + [fifo, dest], stdout=w, stderr=_sp.PIPE, cwd=WORK)
    os.close(w)
    first = b""
    while not first.endswith(b"\n"):
        ch = os.read(r, 1)
        if not ch:
            break
        first += ch
    os.close(r)                                   # the reader is gone

    def feed():
        try:
            with open(fifo, "w") as f:
                f.write(c["src"])
        except OSError:
            pass
    t = threading.Thread(target=feed, daemon=True)
    t.start()
    try:
        _, err = p.communicate(timeout=120)
        code = p.returncode
    except _sp.TimeoutExpired:
        p.kill()
        p.communicate()
        raise vlib.ToolError("lace compile (source through a FIFO) did not finish")
    t.join(5)
    os.remove(fifo)
    after = list(open(dest, "rb").read()) if os.path.exists(dest) else [-1]
    return [{"ev": "atomic", "tag": c["tag"] + ":" + dk, "ast": c["ast"], "stack": c["stack"], "dest": dk, "code": code,
             "before": [-1], "after": after, "opens": -1, "litter": 0, "src": c["src"]}]


def check_C08(replay=None):
    chk = Check("C08", level="fault_enumeration")
    chk.rule = ("fault point = (source whose out-of-range label reference sits at statement position p for each PC-relative instruction, or a valid source) x destination in {absent, existing file, existing longer object, /dev/full, path in a missing directory, "
                "name that is not UTF-8, long multi-byte name, stdout that accepts no data at all / none after the first message, regular file that cannot be written (RLIMIT_FSIZE = 0)}; "
                "MC_Compile explores the protocol model (Compile.tla) with a fault at every step and must reject the two earlier designs; the system calls of every run are replayed through Compile!Step (drift is reported in the evidence, it is not a verdict); "
                "`lace compile src dest` of the real binary runs under strace; Trace_Cli!AtomicOk requires exit 0 => destination holds exactly the object bytes, exit != 0 => destination bytes unchanged, and no open(O_CREAT|O_TRUNC) of "
                "the destination before assembly succeeded. distinct = (source, destination kind) pairs")
    chk.assumptions = ["write faults are injected with /dev/full, an uncreatable path and a process that may not write to regular files at all (RLIMIT_FSIZE = 0, standing in for a full disk); "
                       "a write that succeeds for the first k bytes and then fails is not injected separately (the command issues one write_all)"]
    vlib.build(need_cli=True)
    thorough = chk.tier == "thorough"
    # (A) the protocol as a transition system: every event sequence Compile!Step allows, a fault at every step that can fail
    chk.add_mc(tlc_mc("MC_Compile", "MC_Compile.cfg", workers=2, coverage=False), "MC_Compile")
    for cfg, what in (("MC_Compile_old.cfg", "create-then-write"), ("MC_Compile_msgfatal.cfg", "fatal messages"), ("MC_Compile_vacuity.cfg", "a successful run exists")):
        sanity = tlc_mc("MC_Compile", cfg, workers=2, coverage=False)
        if sanity["ok"]:
            raise vlib.ToolError("%s should be violated (%s): the protocol model would be vacuous" % (cfg, what))
        chk.states += sanity["distinct"]
        chk.transitions += sanity["generated"]
    chk.extra["flawed_designs_rejected_by_TLC"] = ["create-then-write (before fix 1a368e8)", "println! messages (before fix 4b29569)"]
    d, man = _files(chk, "atomic", 0)
    use_strace = _strace_ok()
    chk.extra["strace"] = use_strace
    old = bytes(range(251)) * 20          # longer than any object the cases produce
    jobs = [(c, dk) for c in man for dk in ("absent", "file", "longer", "devfull", "nodir")]
    # the shape of the destination's NAME and the state of stdout must not matter either (every 3rd source each)
    jobs += [(c, dk) for i, c in enumerate(man) for dk in ("nonutf8", "longutf8", "absent-outfull", "file-outfull") if thorough or i % 3 == 0]
    # a REGULAR destination that cannot be completely written: the process may not write a single byte to a regular file
    # (RLIMIT_FSIZE = 0, SIGXFSZ ignored: write() fails with EFBIG as it would with ENOSPC on a full disk)
    jobs += [(c, dk) for i, c in enumerate(man) for dk in ("absent-fsize", "file-fsize") if thorough or i % 3 != 2]
    # ... and a stdout that stops accepting data AFTER the first message (a regular file at its size limit): what is printed once
    # the object is in place must not turn a finished compile into a failed one
    jobs += [(c, dk) for i, c in enumerate(man) for dk in ("absent-msgfail", "file-msgfail") if thorough or i % 3 != 1]
    # the destination is a symbolic link to a regular file (writable / not writable); names mixing 1-, 2-, 3- and 4-byte characters;
    # a stdout pipe whose reader has left once the first message was printed
    jobs += [(c, dk) for i, c in enumerate(man) for dk in ("symlink", "symlink-fsize", "mixedutf8", "absent-pipegone", "absent-ptygone") if thorough or i % 4 == 0]
    # the destination has a second name (hard link): same two outcomes; the other name keeps seeing the old bytes or sees the new ones, never a mixture
    jobs += [(c, dk) for i, c in enumerate(man) for dk in ("hardlink", "hardlink-fsize") if thorough or i % 4 == 1]

    def atomic(job):
        c, dk = job
        base = c["path"][:-4] + "." + dk
        if dk == "absent":
            dest = base + ".lc3"
            if os.path.exists(dest):
                os.remove(dest)
        elif dk == "file":
            dest = base + ".lc3"
            open(dest, "wb").write(old)
        elif dk == "longer":
            # the destination already holds this very object followed by stale bytes (an earlier, longer build)
            dest = base + ".lc3"
            tmp = base + ".tmp.lc3"
            r0 = vlib.run_lace(["compile"] + _flag(c["stack"]) + [c["path"], tmp])
            good = open(tmp, "rb").read() if r0[0] == 0 and os.path.exists(tmp) else b"\x30\x00"
            if os.path.exists(tmp):
                os.remove(tmp)
            open(dest, "wb").write(good + b"\xf0\x26\x12\x34\xf0\x25")
        elif dk == "devfull":
            dest = "/dev/full"
        elif dk == "nonutf8":
            dest = os.fsencode(base) + b"\xff\xfe.lc3"          # a file name that is not valid UTF-8
        elif dk == "longutf8":
            dest = base + "\u00e9" * 45 + ".lc3"                 # long, multi-byte characters all along
        elif dk in ("symlink", "symlink-fsize"):
            real = base + ".real.bin"
            open(real, "wb").write(old)
            dest = base + ".lc3"
            if os.path.lexists(dest):
                os.remove(dest)
            os.symlink(real, dest)
        elif dk in ("hardlink", "hardlink-fsize"):
            dest = base + ".lc3"
            open(dest, "wb").write(old)
            other = base + ".real.bin"
            if os.path.lexists(other):
                os.remove(other)
            os.link(dest, other)
        elif dk == "mixedutf8":
            # 2-, 3-, 4- and 1-byte characters in turn, then j ASCII characters: over the cases every byte alignment of the name's tail occurs
            j = (int(_re.findall(r"_(\d+)\.asm$", c["path"])[0]) // 4) % 10
            dest = base + "\u00e9\u2713\U0001F600a" * 14 + "x" * j + ".lc3"
        elif dk in ("absent-outfull", "absent-fsize", "absent-msgfail", "absent-pipegone", "absent-ptygone"):
            dest = base + ".lc3"
        elif dk in ("file-outfull", "file-fsize", "file-msgfail"):
            dest = base + ".lc3"
            open(dest, "wb").write(old)
        else:
            dest = os.path.join(base + "_missing_dir", "x.lc3")
        regular = dk not in ("devfull", "nodir")
        limit = None          # RLIMIT_FSIZE for the command (None = unlimited)
        out_path = None
        if dk.endswith("-fsize"):
            limit = 1 if dk == "hardlink-fsize" else 0       # (1: the write fails part-way - after one byte - instead of at its first byte; every object has >= 4)
        if dk in ("absent-pipegone", "absent-ptygone"):
            return _c08_pipegone(c, dest, base, dk)
        if dk.endswith("-msgfail"):
            # stdout is a regular file and the size limit lets the first message and the object through, but not the messages
            # printed after the object has been written
            tmp = base + ".probe.lc3"
            r0 = vlib.run_lace(["compile"] + _flag(c["stack"]) + [c["path"], tmp])
            nbytes = os.path.getsize(tmp) if r0[0] == 0 and os.path.exists(tmp) else 4
            if os.path.exists(tmp):
                os.remove(tmp)
            first = len(("%12s target %s\n" % ("Assembling", c["path"])).encode())
            pad = max(0, nbytes - first)
            limit = pad + first + 10
            out_path = base + ".stdout"
            open(out_path, "wb").write(b"#" * pad)
        before = list(open(dest, "rb").read()) if regular and os.path.exists(dest) else [-1]
        log = base + ".strace"
        argv = ["compile"] + _flag(c["stack"]) + [c["path"], dest]
        opens = -1
        sys_events = []
        if dk.endswith("-outfull"):
            sink = open("/dev/full", "wb")
        elif out_path:
            sink = open(out_path, "ab")
        else:
            sink = _sp.PIPE
        marker = os.path.basename(base) + "."          # every spelling of the destination starts with it; the source's name does not

        def limited():
            import resource, signal
            signal.signal(signal.SIGXFSZ, signal.SIG_IGN)
            resource.setrlimit(resource.RLIMIT_FSIZE, (limit, limit))
        for attempt in (60, 600):
            try:
                if use_strace and (limit is None or wrap_ok):
                    wrap = ["prlimit", "--fsize=%d:%d" % (limit, limit), "env", "--ignore-signal=XFSZ"] if limit is not None else []
                    r = _sp.run(["strace", "-f", "-e", "trace=openat,creat,open,write,rename,renameat,renameat2,unlink,unlinkat,exit_group", "-o", log] + wrap + [vlib.LACE_BIN] + argv,
                                stdout=sink, stderr=_sp.PIPE, cwd=WORK, timeout=attempt)
                    code = r.returncode
                    opens, sys_events = _compile_syscalls(log, os.path.basename(base), dest)
                    os.remove(log)
                else:
                    code = _sp.run([vlib.LACE_BIN] + argv, stdout=sink, stderr=_sp.PIPE, cwd=WORK, timeout=attempt, preexec_fn=limited if limit is not None else None).returncode
                break
            except _sp.TimeoutExpired:
                if attempt == 600:
                    raise vlib.ToolError("lace compile did not finish within 600 s")
        if sink is not _sp.PIPE:
            sink.close()
        after = list(open(dest, "rb").read()) if dk != "devfull" and os.path.exists(dest) else [-1]
        # nothing else may be left behind next to the destination either (temporary files)
        dname = os.path.dirname(base)
        mine = {os.path.basename(dest) if isinstance(dest, str) else None, os.path.basename(out_path) if out_path else None}
        litter = sorted(n for n in os.listdir(dname) if n.startswith(marker) and n not in mine and not n.endswith(".strace") and not n.endswith(".real.bin") and "_missing_dir" not in n) if isinstance(dest, str) else []
        if out_path:
            os.remove(out_path)
        if dk == "devfull":
            after = before = [-2]
        if dk.startswith("symlink"):
            # read through the link; the link itself must still be one
            if not os.path.islink(dest):
                after = after + [-3]
        ev = {"ev": "atomic", "tag": c["tag"] + ":" + dk, "ast": c["ast"], "stack": c["stack"], "dest": dk, "code": code,
              "before": before, "after": after, "opens": opens, "litter": len(litter), "src": c["src"]}
        evs = [ev]
        if sys_events:
            evs.append({"ev": "compile_sys", "tag": ev["tag"], "ast": c["ast"], "stack": c["stack"], "kind": "special" if dk == "devfull" else "nodir" if dk == "nodir" else "regular",
                        "d0": "absent" if before == [-1] else "old", "code": code, "sys": sys_events})
        return evs
    wrap_ok = use_strace and _sp.run(["prlimit", "--fsize=0:0", "env", "--ignore-signal=XFSZ", "true"], stdout=_sp.PIPE, stderr=_sp.PIPE).returncode == 0
    events = [e for evs in parallel(atomic, jobs, 8) for e in evs]
    drift = _cli_validate(chk, events, "atomic", soft="compile_sys")
    chk.extra["protocol_runs"] = sum(1 for e in events if e["ev"] == "compile_sys")
    chk.extra["protocol_drift_count"] = len(drift)
    chk.extra["protocol_drift"] = drift[:5]
    events = [e for e in events if e["ev"] == "atomic"]
    chk.distinct = max(chk.distinct, 2)
    chk.samples = [{k: v for k, v in events[1].items() if k != "ast"}, {k: v for k, v in events[-2].items() if k != "ast"}]
    _shutil.rmtree(d, ignore_errors=True)
    return chk.finish()


def check_C18(replay=None):
    chk = Check("C18")
    chk.rule = ("gate: push/pop/call/rets in any letter case and in label position compiled by the real binary without -f stack (must be refused with a diagnostic naming the feature, no crash) and with it (must compile); "
                "programs using none of them compiled and run under both flag values (object bytes, stdout and exit status must be identical); -f values (stack / stack, / ,stack / stack,stack / foo / empty / Stack) against Trace_Cli!FeatValid; "
                "in-process: catalogue run with the flag flipped and raw 0xD words reached at run time (exit 1 without the flag, executed with it), `step out` refusal, validated by Trace_Debug.tla. distinct = cases")
    chk.assumptions = []
    vlib.build(need_cli=True)
    thorough = chk.tier == "thorough"
    chk.add_mc(tlc_mc("MC_ISA", "MC_ISA.cfg", workers=8, coverage=False), "MC_ISA(stack gate: Stops)")
    chk.add_mc(tlc_mc("MC_Assembler", "MC_Assembler_nostack.cfg", workers=8, coverage=False), "MC_Assembler_nostack")
    d, man = _files(chk, "gate", 0)

    def gate(c):
        uses = c["tag"].startswith("uses-") or c["tag"].startswith("label-")
        evs = []
        if uses:
            for f in ((False,) if c["tag"].startswith("label-") else (False, True)):
                dest = c["path"][:-4] + (".on" if f else ".off") + ".lc3"
                code, out, err = vlib.run_lace(["compile"] + _flag(f) + [c["path"], dest])
                evs.append({"ev": "gate", "tag": c["tag"], "uses": True, "stack": f, "code": code, "names": b"stack" in err, "same": True})
        else:
            res = {}
            for f in (False, True):
                dest = c["path"][:-4] + (".on" if f else ".off") + ".lc3"
                cp = vlib.run_lace(["compile"] + _flag(f) + [c["path"], dest])
                rn = vlib.run_lace(["run", "--minimal"] + _flag(f) + [c["path"]], stdin=bytes(c["input"]))
                res[f] = (cp[0], open(dest, "rb").read() if cp[0] == 0 else b"", rn[0], rn[1])
            same = res[False][1:] == res[True][1:]
            evs.append({"ev": "gate", "tag": c["tag"], "uses": False, "stack": False, "code": res[False][0] or res[True][0], "names": False, "same": same})
        return evs
    events = [e for evs in parallel(gate, man, 8) for e in evs]
    src = os.path.join(d, "feat.asm")
    open(src, "w").write("halt\n")
    for v in ["stack", "stack,", ",stack", ",,stack,,", "stack,stack", "foo", "", ",", "Stack", "stack,foo", "stac", "stack ", "stack,,stack"]:
        code, out, err = vlib.run_lace(["check", "-f", v, src])
        events.append({"ev": "featarg", "tag": v, "value": vlib.chars(v), "code": code})
    # `eval <stack mnemonic>` without the flag is refused AND the refusal names the feature; with the flag it executes
    esrc = os.path.join(d, "evalgate.asm")
    open(esrc, "w").write("halt\nsub halt\n")
    for text in ("eval push r0", "eval POP r1", "eval call sub", "eval Rets", "e push r3"):
        for f in (False, True):
            code, out, err = vlib.run_lace(["debug", "--minimal"] + _flag(f) + [esrc, "--command", text + ";registers;exit"])
            e = err.decode("utf-8", "replace")
            r7 = _re.findall(r"(?m)^R7 x([0-9a-f]{4})", e)
            events.append({"ev": "gate_eval", "tag": text + (" +stack" if f else ""), "stack": f, "code": code, "names": "stack" in e.split("R0 x")[0],
                           "r7": int(r7[-1], 16) if r7 else -1, "moves": text.split()[1].lower() in ("push", "pop", "call", "rets")})
    # opcode 0xD without the flag, reached while stdout is a pipe whose reader has left and output is still pending: still exit 1, naming the feature
    psrc = os.path.join(d, "pipe.asm")
    open(psrc, "w").write("and r0 r0 #0\nadd r0 r0 #7\nputn\ngetc\n.fill xD440\nhalt\n")
    for variant in ("reader-gone", "reader-present"):
        p = _sp.Popen([vlib.LACE_BIN, "run", "--minimal", psrc], stdin=_sp.PIPE, stdout=_sp.PIPE, stderr=_sp.PIPE)
        buf = b""
        while b"Running" not in buf:
            ch = p.stdout.read(1)
            if not ch:
                break
            buf += ch
        if variant == "reader-gone":
            p.stdout.close()
        try:
            p.stdin.write(b"k")
            p.stdin.close()
        except OSError:
            pass
        try:
            p.wait(timeout=120)
        except _sp.TimeoutExpired:
            p.kill()
            p.wait()
        err = p.stderr.read()
        events.append({"ev": "gate_run", "tag": "raw-0xD:" + variant, "code": p.returncode, "names": b"stack" in err})
    _cli_validate(chk, events, "gate")
    # the gate at the level of the raw token stream, both flag values
    _lex_run(chk, [("gate%d" % f, ["--mode", "chunks", "--len", 3, "--stride", 4 if thorough else 16, "--phase", chk.seed + f, "--stack", f]) for f in (0, 1)])
    # in-process: flipped flag, raw 0xD words
    traces = _dbg_jobs_run(chk, [("run", ["--mode", "run", "--n", 40 if thorough else 8, "--seed", chk.seed]),
                                 ("scn", ["--mode", "scenario", "--seed", chk.seed])])
    for t in traces:
        os.remove(t)
    chk.distinct = max(chk.distinct, 2)
    chk.samples = events[:2] + events[-2:]
    _shutil.rmtree(d, ignore_errors=True)
    return chk.finish()


# --------------------------------------------------------------------------------------------
# C20  line editor
# --------------------------------------------------------------------------------------------

def check_C20(replay=None):
    chk = Check("C20")
    chk.rule = ("case = key sequence fed to the real Terminal::read through the cfg-gated key source (no TTY, no history file), from empty and non-empty history; enum: after seeded prefixes, EVERY sequence of L keys over "
                "{Enter, Backspace, Delete, Left, Right, Ctrl+Left, Ctrl+Right, Up, Down, a b é Z 9 space + 😀 ; . ✓, Tab, DEL}; random: 20-200 keys. After every key the buffer, focused line, cursor and history index, and every command "
                "handed out on Enter (split at ';'), must be what Editor.tla computes, with the cursor inside the focused line; a panic ends the case with an unexplained event. distinct = key sequences")
    chk.assumptions = ["term::read_key, raw mode and prompt drawing need a TTY and are bypassed by the injected key source"]
    vlib.build()
    if replay:
        raise vlib.ToolError("re-run `bin/check C20`; the replay file holds the failing key sequence")
    thorough = chk.tier == "thorough"
    chk.add_mc(tlc_mc("MC_Editor", "MC_Editor_deep.cfg" if thorough else "MC_Editor.cfg", workers=8, coverage=False, timeout=1200), "MC_Editor")
    jobs = []
    L = 3 if thorough else 2
    parts = 8 if thorough else 2
    for ph in range(parts):
        jobs.append(("enum%d" % ph, ["gen", "edit", "--mode", "enum", "--len", L, "--stride", parts, "--phase", ph, "--seed", chk.seed]))
    for k in range(4 if thorough else 2):
        jobs.append(("rnd%d" % k, ["gen", "edit", "--mode", "random", "--n", 400 * SCALE if thorough else 60, "--seed", chk.seed * 3 + k]))

    def gen(job):
        name, args = job
        out = _wpath("c20_%s.ndjson" % name)
        if name == "pty":
            summ = _c20_pty_cases(chk, out, 40 * SCALE if thorough else 14)
        else:
            summ = harness(args + ["--out", out])
        return out, summ, tlc_trace("Trace_Editor", out, timeout=2400)
    # the same editor through the REAL terminal path: keys typed into a pty (one at a time and in bursts), history file compared at the end
    vlib.build(need_cli=True)
    jobs.append(("pty", []))
    for out, summ, res in parallel(gen, jobs, 8):
        chk.add_trace(res, summ.get("cases", 0))
        chk.evaluations += summ.get("cases", 0)
        if res["consumed"] != res["nrec"]:
            raise vlib.ToolError("Trace_Editor consumed %s of %s events" % (res["consumed"], res["nrec"]))
        for i in sorted(res["bad"]):
            # the case = events from its init
            evs = []
            with open(out) as f:
                for j, line in enumerate(f, 1):
                    e = json.loads(line)
                    if e["ev"] == "init":
                        evs = []
                    evs.append(e)
                    if j == i:
                        break
            ev = evs[-1]
            if ev["ev"] == "end" and ev.get("kind") == "pty":
                key = "pty:" + ("panic" if ev.get("panicked") else "history") + ":" + evs[0].get("mode", "")
            else:
                key = "panic:" + ev.get("msg", "").split(" @ ")[0][:50] if ev["ev"] == "end" and ev.get("kind") == "panic" else "%s:%s" % (ev["ev"], (ev.get("key") or {}).get("k", ""))
            chk.violation(key, "editor event not explained by Editor.tla: %s" % json.dumps(ev)[:300], {"family": "edit", "events": evs})
        if not chk.samples:
            chk.samples = vlib.sample_lines(out, 4)
        os.remove(out)
    chk.distinct = max(chk.distinct, 2)
    return chk.finish()


def _c20_pty_cases(chk, out, n):
    """Seeded key sequences typed into `lace debug` on a pseudo terminal. Lines are made of characters that can only form harmless commands."""
    import random
    import ptydrive
    rnd = random.Random(chk.seed * 7919 + 13)
    d = _wpath("c20_pty")
    _shutil.rmtree(d, ignore_errors=True)
    os.makedirs(d)
    asm = os.path.join(d, "p.asm")
    open(asm, "w").write(".orig x3000\nloop add r0 r0 #1\nbrnzp loop\nhalt\n")
    alphabet = ["a", "b", "\u00e9", "Z", "9", " ", "+", "\U0001F600", ".", "\u2713", "\u00a0"]      # no ';' (it would split the line into commands)
    edit = ["backspace", "delete", "left", "right", "ctrlleft", "ctrlright", "up", "down", "enter"]

    def chars(s):
        return list(s)

    def rand_line():
        return "".join(rnd.choice(alphabet[:5] + [" ", "+"]) for _ in range(rnd.randint(1, 5))).strip() or "a"
    cases = []
    for i in range(n):
        hist = [rand_line() for _ in range(rnd.choice([0, 0, 1, 2, 3]))]
        hist = [h for j, h in enumerate(hist) if j == 0 or h != hist[j - 1]]
        keys = []
        for _ in range(rnd.randint(3, 12)):
            if rnd.random() < 0.5:
                keys.append({"k": "char", "c": rnd.choice(alphabet)})
            else:
                keys.append({"k": rnd.choice(edit), "c": ""})
        keys.append({"k": "enter", "c": ""})
        cases.append((hist, keys, "burst" if i % 2 else "single"))
    # type-ahead: several lines in one burst; a history file longer than any cap one might think of
    cases.append(([], [{"k": "char", "c": c} for c in "ab"] + [{"k": "enter", "c": ""}] + [{"k": "char", "c": c} for c in "Z9"] + [{"k": "enter", "c": ""}], "burst"))
    big = []
    for i in range(1203):
        x, sdig = i, ""
        for _ in range(6):
            sdig = "abZ9"[x % 4] + sdig
            x //= 4
        big.append(sdig)
    cases.append((big, [{"k": "up", "c": ""}, {"k": "up", "c": ""}, {"k": "char", "c": "b"}, {"k": "enter", "c": ""}], "single"))
    # one typed line holding three and more commands (all of them harmless), then another line: both must be taken, in order
    for line in ("a;a;a", "a;;a", "a ; a ; a ; a", ";;"):
        cases.append(([], [{"k": "char", "c": c} for c in line] + [{"k": "enter", "c": ""}] + [{"k": "char", "c": "b"}, {"k": "enter", "c": ""}], "single"))
    # a line longer than the window is wide (the window has a size here: 40 columns), edited in the middle
    long_line = "a b " * 14
    cases.append(([], [{"k": "char", "c": c} for c in long_line] + [{"k": "left", "c": ""}] * 5 + [{"k": "char", "c": "Z"}, {"k": "ctrlleft", "c": ""}, {"k": "char", "c": "9"},
                       {"k": "enter", "c": ""}], "single40"))
    cases.append(([], [{"k": "char", "c": c} for c in long_line] + [{"k": "backspace", "c": ""}] * 3 + [{"k": "char", "c": "Z"}, {"k": "enter", "c": ""}], "burst40"))

    # a terminal speaking the keyboard-enhancement protocol: presses, auto-repeats of a held key and releases arrive as CSI sequences.
    # A repeat is a key press; a release is nothing.  (`w` and `rel` only choose the bytes on the wire; the model sees the same keys.)
    def held(k, times):
        return [dict(k, w="press")] + [dict(k, w="repeat") for _ in range(times - 1)]
    ch = lambda c: {"k": "char", "c": c}
    ed = lambda name: {"k": name, "c": ""}
    cases.append(([], [ch("a"), ch("b")] + held(ch("Z"), 4) + held(ed("left"), 3) + [ch("9")] + held(ed("backspace"), 2) + [ed("enter")], "single"))
    cases.append((["a b", "Z9"], held(ed("up"), 2) + held(ed("ctrlleft"), 2) + held(ed("delete"), 2) + held(ch("\u00e9"), 3) + held(ed("right"), 2) + [dict(ed("enter"), w="press")], "single"))
    cases.append(([], [dict(ch(c), w="press", rel=1) for c in "ab Z"] + [dict(ed("left"), w="press", rel=1), dict(ch("9"), rel=1, w="press"), dict(ed("enter"), w="press", rel=1)], "single"))
    for i in range(max(2, n // 5)):
        keys = []
        for _ in range(rnd.randint(3, 9)):
            k = ch(rnd.choice(alphabet[:7])) if rnd.random() < 0.5 else ed(rnd.choice(edit[:8]))
            r = rnd.random()
            keys += held(k, rnd.randint(2, 4)) if r < 0.4 else [dict(k, w="press", rel=1)] if r < 0.7 else [k]
        keys.append(ed("enter"))
        cases.append(([rand_line()] if i % 2 else [], keys, "burst" if i % 2 else "single"))

    def run(job):
        i, (hist, keys, mode) = job
        cols = 40 if mode.endswith("40") else 0
        r = ptydrive.editor_session(vlib.LACE_BIN, asm, os.path.join(d, "cache%d" % i), hist, keys, mode.replace("40", ""), cols=cols)
        if not r["prompt_seen"]:
            # no prompt at all: retry once before believing it (a loaded machine)
            r = ptydrive.editor_session(vlib.LACE_BIN, asm, os.path.join(d, "cache%d" % i), hist, keys, mode.replace("40", ""), cols=cols)
        if not r["prompt_seen"] and not r["panicked"]:
            raise vlib.ToolError("the debugger's prompt never appeared on the pseudo terminal (twice): %r" % r["transcript"][-200:])
        evs = [{"ev": "init", "hist": [chars(h) for h in hist], "mode": mode}]
        for k in keys:
            if k.get("w"):
                evs.append({"ev": "bwire", "key": {"k": k["k"], "c": k["c"]}, "kind": k["w"]})
            else:
                evs.append({"ev": "bkey", "key": {"k": k["k"], "c": k["c"]}})
            if k.get("rel"):
                evs.append({"ev": "bwire", "key": {"k": k["k"], "c": k["c"]}, "kind": "release"})
            if k["k"] == "enter":
                evs.append({"ev": "bdrain"})
        evs.append({"ev": "end", "kind": "pty", "history": [chars(h) for h in r["history"]] if r["history"] is not None else [["?"]],
                    "panicked": r["panicked"], "prompt_seen": r["prompt_seen"], "transcript": r["transcript"][-300:]})
        return evs
    with open(out, "w") as f:
        for evs in parallel(run, list(enumerate(cases)), 6):
            for e in evs:
                f.write(json.dumps(e) + "\n")
    _shutil.rmtree(d, ignore_errors=True)
    return {"cases": len(cases)}


# --------------------------------------------------------------------------------------------
# C19  assembling is a pure function of the text
# --------------------------------------------------------------------------------------------

def check_C19(replay=None):
    chk = Check("C19")
    chk.rule = ("case = sequence of 3-7 sources (valid; failing in the lexer; failing after labels were recorded: duplicate label, undefined reference, out-of-range operand at the end; sharing label names with the predecessor) "
                "assembled one after the other on ONE thread with reset_state() in between, the whole sequence twice; every result (verdict, origin, words, rendered diagnostic) must equal both Assembler.tla's answer for that text "
                "and the result of assembling the same text on a fresh thread. distinct = assemblies")
    chk.assumptions = ["the watch closure itself is driven by C07's watch session (label-reusing texts); here the same assemble + reset_state + reclaim sequence runs in-process"]
    vlib.build()
    if replay:
        return _asm_replay(chk, replay)
    thorough = chk.tier == "thorough"
    chk.add_mc(tlc_mc("MC_Session", "MC_Session.cfg", workers=4, coverage=False), "MC_Session")
    sanity = tlc_mc("MC_Session", "MC_Session_noreset.cfg", workers=4, coverage=False)
    chk.extra["model_without_reset_violates_Pure"] = not sanity["ok"]
    if sanity["ok"]:
        raise vlib.ToolError("MC_Session without the reset should violate Pure (the model would be vacuous)")
    chk.states += sanity["distinct"]
    chk.transitions += sanity["generated"]
    jobs = [("sess%d" % k, ["--fam", "session", "--n", 200 * SCALE if thorough else 40, "--seed", chk.seed * 3 + k, "--stack", 1 if k != 1 else 0]) for k in range(4)]
    traces = _asm_jobs_run(chk, jobs)
    # "... every re-check of `lace watch` equivalent to a fresh `lace check`": one real watch session (verdict and warnings of every re-check)
    vlib.build(need_cli=True)
    _cli_validate(chk, _watch_smoke(chk), "watch")
    chk.distinct = max(chk.distinct, 2)
    chk.samples = [_slim(e) for e in vlib.sample_lines(traces[0], 2)]
    for t in traces:
        os.remove(t)
    return chk.finish()


def check_C17(replay=None):
    def jobs(chk, thorough):
        n = 400 * SCALE if thorough else 60
        return [("view%d" % k, ["--mode", "view", "--n", n // 4, "--seed", chk.seed * 23 + k]) for k in range(4)] + [("scn", ["--mode", "scenario", "--only", "biggap", "--seed", chk.seed])]
    return _run_family("C17",
                       "session = arbitrary multi-label program (all statement forms, operand-less after operand-ful, .fill/.blkw/.stringz, colon labels, commas, comments with multi-byte characters, "
                       "non-default origins, .break/.orig interleaved, several statements per line) rendered in seeded layouts, loaded under the real debugger and never executed; script = `assembly <a>` for every address "
                       "from origin-1 to one past the image, and `goto L`, `assembly`, `print L+1`, `assembly L-1`, `break add L` for every label; Trace_Debug.tla requires the printed text to be exactly the statement text the "
                       "renderer wrote for that word (nothing for addresses without statement) and every label to resolve to origin + Assembler line - 1 (+ offset). distinct = sessions",
                       DBG_ASSUME + ["statement texts are the renderer's record of what it wrote: mnemonic/directive through last operand"], jobs, replay,
                       mc=lambda th: [("MC_Assembler", "MC_Assembler.cfg")], extra_fn=_c17_bptable)


def _c17_bptable(chk, thorough):
    """The breakpoint table (`break list` without --minimal) of the real binary: one row per breakpoint, showing the statement's text."""
    vlib.build(need_cli=True)
    d = _wpath("c17_bpt")
    _shutil.rmtree(d, ignore_errors=True)
    os.makedirs(d)
    texts = ['add r0, r0, #1', 'halt', '.stringz "abc"', '.stringz "h\u00e9llo w\u00f6rld \u2713\u2713\u2713"', '.stringz "' + "\u00e9" * 16 + '"', '.stringz "' + "\u00e9" * 17 + '"',
             '.stringz "' + "x" * 15 + '"', '.stringz "' + "x" * 16 + '"', '.stringz "' + "x" * 17 + '"', '.fill x1234', 'ld r1, some_long_label_name_here_x', '.blkw #3',
             '.stringz "\U0001F600\U0001F600\U0001F600\U0001F600\U0001F600\U0001F600"', 'and r1,r1,#0', '.stringz "\u2713 a \u2713 b \u2713 c \u2713 d"']
    events = []
    for k in range(3):
        picked = texts[k::3]
        lines, stmts, addr = [".orig x3000"], [], 0x3000
        for i, t in enumerate(picked):
            lines.append(".break")
            lines.append("l%d %s ; c%d" % (i, t, i))
            stmts.append([addr, vlib.chars(t)])
            if t.startswith(".stringz"):
                addr += len(t[len('.stringz "'):-1]) + 1
            elif t.startswith(".blkw"):
                addr += 3
            else:
                addr += 1
        lines.append("some_long_label_name_here_x halt")
        src = os.path.join(d, "t%d.asm" % k)
        open(src, "w").write("\n".join(lines) + "\n")
        code, out, err = vlib.run_lace(["debug", src, "--command", "break list;exit"], env_extra={"NO_COLOR": "1"})
        text = _re.sub(r"\x1b\[[0-9;]*m", "", (out + err).decode("utf-8", "replace"))
        rows = []
        for m in _re.finditer(r"\u2502 0x([0-9a-f]{4}) +\u2502 (.*?)\u2502 (.*?)\u2502", text):
            rows.append([int(m.group(1), 16), vlib.chars(m.group(3).rstrip(" "))])
        events.append({"ev": "bptable", "tag": "t%d" % k, "code": code, "rows": rows, "stmts": stmts, "src": "\n".join(lines)})
    _cli_validate(chk, events, "bptable")
    _shutil.rmtree(d, ignore_errors=True)


# --------------------------------------------------------------------------------------------
# C05  the assembler is total
# --------------------------------------------------------------------------------------------

def check_C05(replay=None):
    chk = Check("C05")
    chk.rule = ("case = text given to the real assembler (AsmParser::new -> parse -> backpatch -> emit, diagnostics rendered with {:?}); tokens: EVERY sequence of up to L token kinds out of 22 (labels, each operand shape of instruction, "
                "literals, string, register, every directive incl. .fill/.blkw/.stringz/.break/.end in any position) - one implementation test per transition of TokModel's (state x token kind) graph and its verdict must equal TokModel!TokAccepts; "
                "chars: EVERY string up to M characters over representatives of the lexer's character classes incl. 2- and 4-byte characters; mutate: token- and character-level mutations of grammar-derived programs; huge: .blkw xFFFF repeated, "
                "label distances of 0x8000 and more, 70,000 statements, 70,000-character string. Every case must return Ok or an Err whose diagnostic renders and whose labelled spans lie inside the source. distinct = texts")
    chk.assumptions = ["non-termination would show as a harness timeout (tool error), not as a verdict", "memory safety of unsafe blocks is not examined"]
    vlib.build()
    if replay:
        case = json.load(open(replay))["case"]
        out = _wpath("c05_replay.ndjson")
        src = _wpath("c05_replay.asm")
        # the totality families re-assemble the recorded text through the `replay asm` path
        evs = [dict(e, stack=True, ast=[], fam="total", id=0) for e in case["events"]]
        cf = _wpath("c05_replay_case.json")
        json.dump(evs, open(cf, "w"))
        harness(["replay", "asm", "--case", cf, "--out", out])
        for e in vlib.sample_lines(out, 5):
            if e["res"] not in ("ok", "err"):
                chk.violation("replay:" + e["res"], "still fails: %s" % e.get("msg"), {"family": "asm", "events": [e]})
        chk.evaluations = chk.distinct = 2
        chk.traces = 1
        chk.states = chk.transitions = 1
        chk.samples = vlib.sample_lines(out, 1)
        return chk.finish()
    thorough = chk.tier == "thorough"
    chk.add_mc(tlc_mc("MC_TokModel", "MC_TokModel_deep.cfg" if thorough else "MC_TokModel.cfg", workers=8, coverage=False), "MC_TokModel")
    jobs = []
    parts = 8
    for ph in range(parts):
        jobs.append(("tok%d" % ph, ["--fam", "tokens", "--len", 4 if thorough else 3, "--stride", parts, "--phase", ph, "--seed", chk.seed]))
        jobs.append(("chr%d" % ph, ["--fam", "chars", "--len", 5 if thorough else 4, "--stride", parts * (6 if thorough else 1), "--phase", ph + chk.seed, "--seed", chk.seed]))
    for k in range(4):
        jobs.append(("mut%d" % k, ["--fam", "mutate", "--n", 5000 * SCALE if thorough else 500, "--seed", chk.seed * 9 + k]))
    jobs.append(("huge", ["--fam", "huge", "--seed", chk.seed]))
    jobs.append(("rawstr", ["--fam", "rawstrings", "--len", 5 if thorough else 4, "--seed", chk.seed]))

    def gen(job):
        name, args = job
        out = _wpath("c05_%s.ndjson" % name)
        try:
            summ = harness(["gen", "asm"] + args + ["--out", out], timeout=1500)
        except vlib.HarnessHang as h:
            return out, {"hang": h.case}, None           # "loops forever" is one of the things C05 rules out
        return out, summ, tlc_trace("Trace_Tok", out, timeout=2400)
    for out, summ, res in parallel(gen, jobs, 8):
        if res is None:
            chk.violation("hang", "assembling %r does not terminate (still running after the watchdog limit)" % summ["hang"][:200],
                          {"family": "asm", "events": [{"ev": "hang", "src": summ["hang"]}]})
            continue
        chk.add_trace(res, res["nrec"])
        chk.evaluations += res["nrec"]
        if res["consumed"] != res["nrec"]:
            raise vlib.ToolError("Trace_Tok consumed %s of %s" % (res["consumed"], res["nrec"]))
        evs = read_events(out, res["bad"])
        for i in sorted(res["bad"]):
            e = evs[i]
            if e["res"] == "panic":
                key = "panic:" + e["msg"].split(" @ ")[-1][-40:] + ":" + e["msg"].split(" @ ")[0][:40]
            elif e["ev"] == "tok":
                key = "verdict:" + "-".join(e["toks"])[:60]
            else:
                key = "diagnostic:%s" % ("render" if not e["diag_ok"] else "span")
            e = dict(e)
            e["src"] = e["src"][:2000]
            chk.violation(key, "assembling %r: %s %s" % (e["src"][:80], e["res"], e.get("msg", "")), {"family": "asm", "events": [e]})
        if len(chk.samples) < 3:
            s = vlib.sample_lines(out, 3)[-1]
            s["src"] = s["src"][:200]
            chk.samples.append(s)
        os.remove(out)
    _lex_run(chk, [("chars%d" % k, ["--mode", "chars", "--len", 4 if thorough else 3, "--stride", 4, "--phase", k, "--stack", k % 2]) for k in range(4)]
                  # every pair of the lexer's boundary spellings (x-8000, x-8001, x10000, #65535, #65536, 0x-2, r8, "open ...): totality at the edges of each literal form
                  + [("lits%d" % k, ["--mode", "chunks", "--len", 2, "--stride", 2, "--phase", k, "--stack", k]) for k in range(2)])
    # inputs whose SIZE is the point, given to the real binary (a stack overflow aborts the process: only a separate process can observe that)
    vlib.build(need_cli=True)
    d = _wpath("c05_cli")
    _shutil.rmtree(d, ignore_errors=True)
    os.makedirs(d)
    big = {"comments": "; c\n" * 60000 + "halt\n", "blank": "\n" * 60000 + "halt\n", "comments-mid": ".fill\n" + "; c\n" * 60000 + "x5\nhalt\n",
           "comments-only": ";\n" * 200000, "labels": "".join("l%d\n" % i for i in range(30000)) + "halt\n",
           "one-line": "add r0 r0 r0 " * 30000 + "\n", "nested-colons": ":" * 100000 + "halt\n", "long-comment": ";" + "x" * 2000000 + "\nhalt\n"}
    evs = []
    for tag, text in big.items():
        f = os.path.join(d, tag + ".asm")
        open(f, "w").write(text)
        code, out, err = vlib.run_lace(["check", f], timeout=120)
        evs.append({"ev": "clitotal", "tag": tag, "code": code, "bytes": len(text)})
    _cli_validate(chk, evs, "clitotal")
    _shutil.rmtree(d, ignore_errors=True)
    chk.distinct = max(chk.distinct, 2)
    return chk.finish()


# --------------------------------------------------------------------------------------------
# Lexer token streams (Lexer.tla / Trace_Lex.tla), shared by C01, C05, C18
# --------------------------------------------------------------------------------------------

def _lex_run(chk, jobs):
    """jobs: list of (name, args for `gen lex`)."""
    def gen(job):
        name, args = job
        out = _wpath("%s_lex_%s.ndjson" % (chk.pid.lower(), name))
        summ = harness(["gen", "lex"] + args + ["--out", out])
        return out, summ, tlc_trace("Trace_Lex", out, timeout=2400)
    total = 0
    for out, summ, res in parallel(gen, jobs, 8):
        chk.add_trace(res, res["nrec"])
        total += res["nrec"]
        if res["consumed"] != res["nrec"]:
            raise vlib.ToolError("Trace_Lex consumed %s of %s" % (res["consumed"], res["nrec"]))
        evs = read_events(out, res["bad"])
        for i in sorted(res["bad"]):
            e = evs[i]
            first = (e["toks"][0][0] if e["toks"] else "none")
            key = "lex:panic" if e["panic"] else "lex:%s" % first.split("(")[0]
            chk.violation(key, "token stream of %r is not Lexer!Lex's: %s %s" % (e["src"], e["toks"][:4], e.get("msg", "")), {"family": "lex", "events": [e]})
        os.remove(out)
    chk.evaluations += total
    chk.extra["lexer_texts"] = chk.extra.get("lexer_texts", 0) + total
