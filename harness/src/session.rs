//! Running a program (with or without debugger script) through the real `RunEnvironment` and
//! turning the raw hook events into the `load / loop / cmd / exec / stop` trace of Trace_Debug.tla.

use lace::debugger::Options;
use lace::verif::{self, Event, Sample, Snapshot};
use lace::{AsmParser, RunEnvironment, StaticSource};
use serde_json::{json, Value};

use crate::prog::Item;
use crate::util::*;

#[derive(Clone)]
pub struct Cmd {
    pub text: String,
    /// Structured form the specification works with.
    pub c: Value,
}

#[derive(Clone)]
pub enum Program {
    /// Assembly text (+ the statement text of every item that occupies words, for C17).
    Asm { src: String, ast: Vec<Item>, texts: Vec<(usize, String)> },
    /// Raw image: origin word followed by the statement words.
    Raw(Vec<u16>),
}

#[derive(Clone)]
pub struct Session {
    pub id: String,
    pub program: Program,
    pub stack: bool,
    pub input: Vec<u8>,
    /// `None`: run without debugger.
    pub script: Option<Vec<Cmd>>,
    pub fuel: u64,
    pub mayloop: bool,
}

fn item_size(it: &Item) -> usize {
    match it.k {
        "orig" | "break" | "end" => 0,
        "blkw" => it.c.max(0) as usize,
        "stringz" => it.s.len() + 1,
        _ => 1,
    }
}

fn lines(text: &str) -> Vec<String> {
    let mut v: Vec<String> = text.split('\n').map(|s| s.to_string()).collect();
    if v.last().map(|s| s.is_empty()).unwrap_or(false) {
        v.pop();
    }
    v
}

fn sample_json(ev: &mut Value, reg: &[u16; 8], pc: u16, cc: u8, memd: &[(u16, u16)]) {
    ev["reg"] = json!(reg);
    ev["pc"] = json!(pc);
    ev["cc"] = json!(cc);
    ev["memd"] = json!(memd.iter().map(|(a, v)| [*a as u32, *v as u32]).collect::<Vec<_>>());
}

struct Final {
    reg: [u16; 8],
    pc: u16,
    cc: u8,
    mem: Vec<[u32; 2]>,
    out: Vec<u32>,
    banners: u32,
    kind: &'static str,
    code: i64,
}
impl Final {
    fn to_json(&self) -> Value {
        json!({"reg": self.reg, "pc": self.pc, "cc": self.cc, "mem": self.mem, "out": self.out,
               "banners": self.banners, "kind": self.kind, "code": self.code})
    }
}

struct Loaded {
    env: RunEnvironment,
    load: Value,
    _holder: Option<StaticSource>,
}

fn load(sess: &Session, with_debugger: bool) -> Result<Loaded, Value> {
    // process exits inside the loader (empty / oversized image) must become typed unwinds
    verif::arm(None, &[], false);
    let r = load_inner(sess, with_debugger);
    verif::disarm();
    r
}

fn load_inner(sess: &Session, with_debugger: bool) -> Result<Loaded, Value> {
    let script_text = sess.script.as_ref().map(|s| s.iter().map(|c| c.text.clone()).collect::<Vec<_>>().join("\n"));
    let mut ev = json!({"ev": "load", "id": sess.id, "stack": sess.stack, "inb": sess.input,
                        "att": with_debugger && sess.script.is_some(), "mayloop": sess.mayloop});
    let mut holder = None;
    let env = match &sess.program {
        Program::Raw(raw) => {
            ev["odecl"] = json!(raw[0]);
            ev["words"] = json!(raw[1..]);
            ev["brk"] = json!([]);
            ev["syms"] = json!([]);
            ev["texts"] = json!([]);
            let (r, ended) = guarded(|| RunEnvironment::from_raw(raw));
            match r {
                Some(Ok(env)) => env,
                _ => return Err(json!({"ev": "loadfail", "id": sess.id, "kind": ended.kind(), "code": ended.code(), "msg": ended.msg(),
                                       "raw": true, "o": raw[0], "n": raw.len() - 1})),
            }
        }
        Program::Asm { src, ast, texts } => {
            let h = StaticSource::new(src.clone());
            let text: &'static str = h.src();
            holder = Some(h);
            let (r, ended) = guarded(|| -> Result<_, String> {
                let mut air = AsmParser::new(text).map_err(|e| format!("{}", e))?.parse().map_err(|e| format!("{}", e))?;
                air.backpatch().map_err(|e| format!("{}", e))?;
                let mut words = Vec::new();
                for stmt in &air {
                    words.push(stmt.emit().map_err(|e| format!("{}", e))?);
                }
                let brk: Vec<u16> = air.breakpoints.iter().map(|b| b.address).collect();
                let odecl = air.orig().map(|o| o as i64).unwrap_or(-1);
                let syms = verif::symbols();
                let opts = if with_debugger { script_text.clone().map(|s| Options { command: Some(s) }) } else { None };
                let env = RunEnvironment::try_from(air, opts).map_err(|e| format!("{}", e))?;
                Ok((env, words, brk, odecl, syms))
            });
            match r {
                Some(Ok((env, words, brk, odecl, syms))) => {
                    ev["odecl"] = json!(odecl);
                    ev["words"] = json!(words);
                    ev["brk"] = json!(brk);
                    ev["syms"] = json!(syms.iter().map(|(n, l)| json!([n, l])).collect::<Vec<_>>());
                    // statement text of every word (C17)
                    let mut tv = Vec::new();
                    let mut off = 0usize;
                    let mut eff = true;
                    for (i, it) in ast.iter().enumerate() {
                        if !eff {
                            break;
                        }
                        if it.k == "end" {
                            eff = false;
                            continue;
                        }
                        let size = item_size(it);
                        if let Some((_, t)) = texts.iter().find(|(idx, _)| *idx == i) {
                            for j in 0..size {
                                // (a block of thousands of words is only recorded at its two ends: scripts do not look inside)
                                if size > 2000 && j >= 2 && j + 2 < size {
                                    continue;
                                }
                                tv.push(json!([off + j, t]));
                            }
                        }
                        off += size;
                    }
                    ev["texts"] = json!(tv);
                    ev["src"] = json!(src);
                    // what the debugger really starts with (absolute addresses), next to the tree the spec derives them from
                    if let Some(b) = env.verif_breakpoints() {
                        ev["bps0"] = json!(b.iter().map(|x| x.0).collect::<Vec<u16>>());
                        ev["ast"] = crate::prog::ast_json(ast);
                    }
                    env
                }
                Some(Err(msg)) => return Err(json!({"ev": "loadfail", "id": sess.id, "kind": "asm-error", "code": 0, "msg": msg, "raw": false, "o": 0, "n": 0})),
                None => return Err(json!({"ev": "loadfail", "id": sess.id, "kind": ended.kind(), "code": ended.code(), "msg": ended.msg(), "raw": false, "o": 0, "n": 0})),
            }
        }
    };
    let snap = env.verif_snapshot();
    ev["orig"] = json!(snap.orig);
    ev["reg"] = json!(snap.reg);
    ev["pc"] = json!(snap.pc);
    ev["cc"] = json!(snap.cc);
    ev["mem"] = json!(nonzero(&snap.mem));
    Ok(Loaded { env, load: ev, _holder: holder })
}

fn run_armed(env: &mut RunEnvironment, sess: &Session, sample: bool) -> (Vec<(Event, Option<Sample>)>, Ended, Snapshot) {
    let start = env.verif_snapshot();
    verif::arm(Some(sess.fuel), &sess.input, sample);
    verif::set_shadow(&start.mem);
    let (_, ended) = guarded(|| env.run());
    let events = verif::disarm();
    (events, ended, env.verif_snapshot())
}

fn finals(events: &[(Event, Option<Sample>)], ended: &Ended, fin: &Snapshot) -> Final {
    let mut out = String::new();
    let mut banners = 0;
    for (e, _) in events {
        match e {
            Event::Stdout(t) => out.push_str(t),
            Event::HaltBanner => banners += 1,
            _ => {}
        }
    }
    Final { reg: fin.reg, pc: fin.pc, cc: fin.cc, mem: nonzero(&fin.mem), out: codepoints(&out), banners,
            kind: match ended { Ended::Returned => "return", e => e.kind() }, code: ended.code() }
}

/// Run one session on a fresh thread under a wall-clock watchdog.  A session whose thread does not come back within
/// VERIF_WATCHDOG seconds (default 120; sessions take milliseconds) is reported as one `hang` event - the code under
/// test is spinning somewhere the step budget does not reach - and its thread is left behind.
pub fn run_session_watched(sess: Session) -> Vec<Value> {
    static HUNG_BEFORE: std::sync::atomic::AtomicBool = std::sync::atomic::AtomicBool::new(false);
    let mut secs: u64 = std::env::var("VERIF_WATCHDOG").ok().and_then(|v| v.parse().ok()).unwrap_or(120);
    if HUNG_BEFORE.load(std::sync::atomic::Ordering::SeqCst) {
        // one hang is already on record for this run: do not wait as long for the next ones
        secs = secs.min(15);
    }
    let id = sess.id.clone();
    let script: Vec<String> = sess.script.as_ref().map(|s| s.iter().map(|c| c.text.clone()).collect()).unwrap_or_default();
    let src = match &sess.program {
        Program::Asm { src, .. } => src.clone(),
        Program::Raw(w) => format!("{:?}", w),
    };
    let (tx, rx) = std::sync::mpsc::channel();
    std::thread::Builder::new()
        .stack_size(16 << 20)
        .spawn(move || {
            let _ = tx.send(run_session(&sess));
        })
        .expect("spawn");
    match rx.recv_timeout(std::time::Duration::from_secs(secs)) {
        Ok(events) => events,
        Err(std::sync::mpsc::RecvTimeoutError::Timeout) => {
            HUNG_BEFORE.store(true, std::sync::atomic::Ordering::SeqCst);
            vec![json!({"ev": "hang", "id": id, "secs": secs, "script": script, "src": src})]
        }
        Err(_) => panic!("harness thread itself must not panic"),
    }
}

/// Run one session on the current (fresh) thread and return its trace events.
pub fn run_session(sess: &Session) -> Vec<Value> {
    lace::features::init(if sess.stack { "stack".parse().unwrap() } else { "".parse().unwrap() });
    lace::set_minimal(true);
    let mut trace = Vec::new();

    let pure = sess.script.as_ref().map(|s| s.iter().all(|c| c.c["pure"].as_bool().unwrap_or(false))).unwrap_or(false);
    // reference run without debugger (C09) - first, so that the symbol table of the second
    // assembly is the one the debugger sees
    let reference = if pure {
        match load(sess, false) {
            Ok(mut l) => {
                let (ev, ended, fin) = run_armed(&mut l.env, sess, false);
                lace::reset_state();
                Some(finals(&ev, &ended, &fin))
            }
            Err(_) => None,
        }
    } else {
        None
    };

    let mut loaded = match load(sess, true) {
        Ok(l) => l,
        Err(ev) => {
            trace.push(ev);
            return trace;
        }
    };
    let mut load_ev = loaded.load.clone();
    load_ev["pure"] = json!(pure && reference.is_some());
    trace.push(load_ev);

    let start = loaded.env.verif_snapshot();
    let (events, ended, fin) = run_armed(&mut loaded.env, sess, true);

    // ---- post-processing ----
    let mut cur_mem = start.mem.clone();
    let (mut reg, mut pc, mut cc) = (start.reg, start.pc, start.cc);
    let mut last_bps: Vec<u16> = loaded.env.verif_breakpoints().map(|b| b.iter().map(|x| x.0).collect()).unwrap_or_default();
    // breakpoints at load time: origin + predefined offsets (the debugger may be gone by now)
    if let Some(b) = trace[0]["brk"].as_array() {
        let o = start.orig;
        last_bps = b.iter().map(|x| o.wrapping_add(x.as_u64().unwrap() as u16)).collect();
    }
    let script = sess.script.clone().unwrap_or_default();
    let mut next_cmd = 0usize;
    let mut pending: Option<(Value, String, bool)> = None; // (structured, text, detached)
    let mut open_loop: Option<Value> = None;
    let mut last_cmd: Option<usize> = None;
    let mut err_buf = String::new();
    let mut tag_buf = String::new();
    let mut out_buf = String::new();
    let mut nin = 0u32;
    let mut banner = false;

    macro_rules! take_sample {
        ($s:expr) => {{
            let s: &Sample = $s;
            for (a, v) in &s.memd {
                cur_mem[*a as usize] = *v;
            }
            reg = s.reg;
            pc = s.pc;
            cc = s.cc;
            s.memd.clone()
        }};
    }
    macro_rules! flush_loop {
        () => {
            if let Some(mut lp) = open_loop.take() {
                lp["tags"] = json!(lines(&tag_buf));
                tag_buf.clear();
                trace.push(lp);
            }
        };
    }
    macro_rules! emit_cmd {
        ($memd:expr) => {
            if let Some((c, text, det)) = pending.take() {
                // `assembly` prints ONE statement text, which may itself contain line breaks
                let err_lines = if c["n"] == "assembly" && err_buf.trim_end_matches('\n').contains('\n') && !err_buf.contains("::") {
                    vec![err_buf.trim_end_matches('\n').to_string()]
                } else {
                    lines(&err_buf)
                };
                let mut ev = json!({"ev": "cmd", "c": c, "text": text, "err": err_lines, "out": codepoints(&out_buf),
                                    "nin": nin, "bps": last_bps, "det": det, "post": []});
                if let Some(chars) = c.get("chars") {
                    // C14: the specification parses the raw line itself
                    ev["chars"] = chars.clone();
                }
                sample_json(&mut ev, &reg, pc, cc, $memd);
                trace.push(ev);
                last_cmd = Some(trace.len() - 1);
                err_buf.clear();
                out_buf.clear();
                nin = 0;
            }
        };
    }

    for (e, s) in &events {
        match e {
            Event::Loop { pc: lpc, attached } => {
                flush_loop!();
                let memd = s.as_ref().map(|s| take_sample!(s)).unwrap_or_default();
                let had_pending = pending.is_some();
                emit_cmd!(&memd);
                let mut ev = json!({"ev": "loop", "at": lpc, "att": attached});
                sample_json(&mut ev, &reg, pc, cc, if had_pending { &[] } else { &memd });
                open_loop = Some(ev);
            }
            Event::Status { bps } => {
                let memd = s.as_ref().map(|s| take_sample!(s)).unwrap_or_default();
                last_bps = bps.iter().map(|b| b.0).collect();
                if pending.is_some() {
                    emit_cmd!(&memd);
                } else if !memd.is_empty() {
                    // state changed with no command and no instruction: make it visible
                    let mut ev = json!({"ev": "ghost-write"});
                    sample_json(&mut ev, &reg, pc, cc, &memd);
                    flush_loop!();
                    trace.push(ev);
                }
            }
            Event::CmdLine(text) => {
                if text.trim().is_empty() {
                    continue;
                }
                flush_loop!();
                // a previous line that failed to parse has no state sample of its own
                emit_cmd!(&[]);
                let c = script.get(next_cmd).map(|c| c.c.clone()).unwrap_or(json!({"n": "unscripted"}));
                next_cmd += 1;
                pending = Some((c, text.clone(), false));
            }
            Event::Stderr(t) => {
                if pending.is_some() {
                    err_buf.push_str(t);
                } else if open_loop.is_some() {
                    tag_buf.push_str(t);
                } else if let Some(i) = last_cmd {
                    // printed by the status machine between a resuming command and the instruction
                    let mut post: Vec<String> = trace[i]["post"].as_array().unwrap().iter().map(|x| x.as_str().unwrap().to_string()).collect();
                    post.extend(lines(t));
                    trace[i]["post"] = json!(post);
                } else {
                    tag_buf.push_str(t);
                }
            }
            Event::Stdout(t) => out_buf.push_str(t),
            Event::HaltBanner => banner = true,
            Event::Input(_) => nin += 1,
            Event::Detach => {
                flush_loop!();
                let is_quit = pending.as_ref().map(|p| p.0["n"] == "quit" || p.0["n"] == "probe").unwrap_or(false);
                if is_quit {
                    pending.as_mut().unwrap().2 = true;
                } else {
                    // the last command line did not parse (no sample of its own), then input ended
                    emit_cmd!(&[]);
                    pending = Some((eof_cmd(), String::new(), true));
                }
            }
            Event::Exec { pc: at, instr } => {
                flush_loop!();
                emit_cmd!(&[]);
                let memd = s.as_ref().map(|s| take_sample!(s)).unwrap_or_default();
                let mut ev = json!({"ev": "exec", "at": at, "instr": instr, "out": codepoints(&out_buf), "nin": nin, "banner": banner});
                sample_json(&mut ev, &reg, pc, cc, &memd);
                trace.push(ev);
                out_buf.clear();
                nin = 0;
                banner = false;
            }
            Event::Key { .. } => {}
        }
    }
    flush_loop!();
    // final state
    let fin_diff: Vec<(u16, u16)> = mem_diff(&cur_mem, &fin.mem).iter().map(|p| (p[0] as u16, p[1] as u16)).collect();
    reg = fin.reg;
    pc = fin.pc;
    cc = fin.cc;
    let had_pending = pending.is_some();
    emit_cmd!(&fin_diff);
    let f = finals(&events, &ended, &fin);
    let mut stop = json!({"ev": "stop", "kind": f.kind, "code": f.code, "msg": ended.msg(), "mayloop": sess.mayloop,
                          "out": codepoints(&out_buf), "fin": f.to_json(),
                          "ref": reference.as_ref().map(|r| r.to_json()).unwrap_or(json!(0))});
    sample_json(&mut stop, &reg, pc, cc, if had_pending { &[] } else { &fin_diff });
    trace.push(stop);
    lace::reset_state();
    trace
}

pub fn eof_cmd() -> Value {
    json!({"n": "eof", "lt": "none", "lv": 0, "ln": "", "v": 0, "s": "", "wf": true, "pure": true, "it": crate::prog::plain("ret").to_json()})
}
