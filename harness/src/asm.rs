//! Driving the real assembler pipeline through its public API.

use lace::{AsmParser, StaticSource};
use serde_json::{json, Value};

use crate::util::*;

pub struct AsmOut {
    pub res: &'static str, // ok | err | panic
    pub stage: &'static str,
    pub orig: i64, // -1 if no .orig
    pub words: Vec<u16>,
    pub bps: Vec<u16>,
    pub syms: Vec<(String, u16)>,
    /// (offset, length) of each statement's span
    pub spans: Vec<(usize, usize)>,
    pub diag: String,
    pub msg: String,
    /// the diagnostic rendered (`{:?}`) without panicking
    /// diagnostic code of the error ("" if it has none)
    pub code: String,
    pub diag_ok: bool,
    /// every labelled span of the diagnostic lies inside the source
    pub spans_ok: bool,
}

impl AsmOut {
    pub fn to_json(&self) -> Value {
        // long images are written with every run of 32 or more zero words as one negative number (-run length);
        // the trace spec expands it again (Trace_Asm!WordsOf)
        let words: Value = if self.words.len() > 4096 {
            let mut sq: Vec<i64> = Vec::new();
            let mut i = 0;
            while i < self.words.len() {
                let mut j = i;
                while j < self.words.len() && self.words[j] == 0 {
                    j += 1;
                }
                if j - i >= 32 {
                    sq.push(-((j - i) as i64));
                    i = j;
                } else {
                    sq.push(self.words[i] as i64);
                    i += 1;
                }
            }
            json!(sq)
        } else {
            json!(self.words)
        };
        json!({"res": self.res, "stage": self.stage, "orig": self.orig, "words": words, "bps": self.bps,
               "syms": self.syms.iter().map(|(n, l)| json!([n, l])).collect::<Vec<_>>(), "msg": self.msg,
               "code": self.code, "diag_ok": self.diag_ok, "spans_ok": self.spans_ok})
    }
}

/// Assemble `src` on the current thread (features must be initialised); resets the global
/// assembler state afterwards, as `lace watch` does.
pub fn assemble(src: &str, render_diag: bool) -> AsmOut {
    case_begin(src);
    let out = assemble_inner(src, render_diag);
    case_end();
    out
}

fn assemble_inner(src: &str, render_diag: bool) -> AsmOut {
    let mut holder = StaticSource::new(src.to_string());
    let text: &'static str = holder.src();
    let mut out = AsmOut {
        res: "err", stage: "", orig: -1, words: vec![], bps: vec![], syms: vec![], spans: vec![],
        diag: String::new(), msg: String::new(), code: String::new(), diag_ok: true, spans_ok: true,
    };
    let src_len = text.len();
    let mut spans_ok = true;
    let mut diag_ok = true;
    let mut code = String::new();
    let (r, ended) = guarded(|| -> Result<(), (&'static str, String)> {
        let mut diag = |stage: &'static str, e: miette::Report| -> (&'static str, String) {
            code = e.code().map(|c| c.to_string()).unwrap_or_default();
            if let Some(labels) = e.labels() {
                for l in labels {
                    if l.offset() + l.len() > src_len {
                        spans_ok = false;
                    }
                }
            }
            if render_diag {
                // rendering a diagnostic must not panic either
                let (text, ended) = guarded(|| format!("{:?}", e));
                if ended != Ended::Returned {
                    diag_ok = false;
                }
                (stage, text.unwrap_or_else(|| format!("<render failed: {}>", ended.msg())))
            } else {
                (stage, format!("{}", e))
            }
        };
        let parser = AsmParser::new(text).map_err(|e| diag("lex", e))?;
        let mut air = parser.parse().map_err(|e| diag("parse", e))?;
        air.backpatch().map_err(|e| diag("backpatch", e))?;
        let mut words = Vec::with_capacity(air.len());
        let mut spans = Vec::with_capacity(air.len());
        for stmt in &air {
            words.push(stmt.emit().map_err(|e| diag("emit", e))?);
            spans.push((stmt.span.offs(), stmt.span.len()));
        }
        out.orig = air.orig().map(|o| o as i64).unwrap_or(-1);
        out.words = words;
        out.spans = spans;
        out.bps = air.breakpoints.iter().map(|b| b.address).collect();
        out.syms = lace::verif::symbols();
        Ok(())
    });
    match (r, ended) {
        (Some(Ok(())), _) => out.res = "ok",
        (Some(Err((stage, d))), _) => {
            out.res = "err";
            out.stage = stage;
            out.diag = d;
        }
        (None, e) => {
            out.res = "panic";
            out.msg = e.msg();
        }
    }
    out.code = code;
    out.diag_ok = diag_ok;
    out.spans_ok = spans_ok;
    lace::reset_state();
    holder.reclaim();
    out
}
