//! Small utilities shared by all generators: PRNG, panic capture, NDJSON output.

use std::any::Any;
use std::cell::RefCell;
use std::fs::File;
use std::io::{BufWriter, Write};
use std::panic::{catch_unwind, AssertUnwindSafe};

use lace::verif::{Snapshot, Unwind};
use serde_json::Value;

/// splitmix64: deterministic, seedable, no dependency.
#[derive(Clone)]
pub struct Rng(pub u64);
impl Rng {
    pub fn new(seed: u64) -> Self {
        Rng(seed.wrapping_mul(0x9E3779B97F4A7C15) ^ 0xD1B54A32D192ED03)
    }
    pub fn next(&mut self) -> u64 {
        self.0 = self.0.wrapping_add(0x9E3779B97F4A7C15);
        let mut z = self.0;
        z = (z ^ (z >> 30)).wrapping_mul(0xBF58476D1CE4E5B9);
        z = (z ^ (z >> 27)).wrapping_mul(0x94D049BB133111EB);
        z ^ (z >> 31)
    }
    pub fn below(&mut self, n: u64) -> u64 {
        if n == 0 {
            0
        } else {
            self.next() % n
        }
    }
    pub fn range(&mut self, lo: i64, hi: i64) -> i64 {
        lo + self.below((hi - lo + 1) as u64) as i64
    }
    pub fn word(&mut self) -> u16 {
        self.next() as u16
    }
    pub fn chance(&mut self, num: u64, den: u64) -> bool {
        self.below(den) < num
    }
    pub fn pick<'a, T>(&mut self, items: &'a [T]) -> &'a T {
        &items[self.below(items.len() as u64) as usize]
    }
    pub fn pick_string(&mut self, items: &[String]) -> String {
        items[self.below(items.len() as u64) as usize].clone()
    }
    /// A word biased towards the boundary values the properties name.
    pub fn boundary_word(&mut self) -> u16 {
        const B: [u16; 10] = [0, 1, 2, 0x7FFF, 0x8000, 0xFFFF, 0xFFFE, 0x00FF, 0x0100, 0x8001];
        if self.chance(1, 2) {
            *self.pick(&B)
        } else {
            self.word()
        }
    }
}

thread_local! {
    static LAST_PANIC: RefCell<Option<String>> = const { RefCell::new(None) };
    static IN_GUARD: RefCell<bool> = const { RefCell::new(false) };
}

/// Install a panic hook which records message + location instead of printing.
pub fn install_panic_hook() {
    std::panic::set_hook(Box::new(|info| {
        let msg = if let Some(s) = info.payload().downcast_ref::<&str>() {
            s.to_string()
        } else if let Some(s) = info.payload().downcast_ref::<String>() {
            s.clone()
        } else {
            "<non-string panic>".to_string()
        };
        let loc = info
            .location()
            .map(|l| format!("{}:{}", l.file(), l.line()))
            .unwrap_or_default();
        if !IN_GUARD.with(|g| *g.borrow()) {
            // a bug in the harness itself, not in the code under test
            eprintln!("HARNESS PANIC: {} @ {}", msg, loc);
        }
        LAST_PANIC.with(|p| *p.borrow_mut() = Some(format!("{} @ {}", msg, loc)));
    }));
}

/// How a piece of code under test ended.
#[derive(Debug, Clone, PartialEq)]
pub enum Ended {
    Returned,
    Exit(i32),
    Fuel,
    KeysExhausted,
    Panic(String),
}

impl Ended {
    pub fn kind(&self) -> &'static str {
        match self {
            Ended::Returned => "ok",
            Ended::Exit(_) => "exit",
            Ended::Fuel => "fuel",
            Ended::KeysExhausted => "keys",
            Ended::Panic(_) => "panic",
        }
    }
    pub fn code(&self) -> i64 {
        match self {
            Ended::Exit(c) => *c as i64,
            _ => 0,
        }
    }
    pub fn msg(&self) -> String {
        match self {
            Ended::Panic(m) => m.clone(),
            _ => String::new(),
        }
    }
}

fn classify(payload: Box<dyn Any + Send>) -> Ended {
    if let Some(u) = payload.downcast_ref::<Unwind>() {
        return match u {
            Unwind::Exit(c) => Ended::Exit(*c),
            Unwind::Fuel => Ended::Fuel,
            Unwind::KeysExhausted => Ended::KeysExhausted,
        };
    }
    let msg = LAST_PANIC
        .with(|p| p.borrow_mut().take())
        .unwrap_or_else(|| "<unknown panic>".to_string());
    Ended::Panic(msg)
}

/// Run code under test; a panic or typed unwind is data, not failure.
pub fn guarded<R>(f: impl FnOnce() -> R) -> (Option<R>, Ended) {
    LAST_PANIC.with(|p| *p.borrow_mut() = None);
    let outer = IN_GUARD.with(|g| g.replace(true));
    let r = catch_unwind(AssertUnwindSafe(f));
    IN_GUARD.with(|g| *g.borrow_mut() = outer);
    match r {
        Ok(r) => (Some(r), Ended::Returned),
        Err(payload) => (None, classify(payload)),
    }
}

// ---- wall-clock watchdog for single cases (assembling one text, lexing one text, one key sequence) ----
static CASE: std::sync::Mutex<Option<(std::time::Instant, String)>> = std::sync::Mutex::new(None);
static MONITOR: std::sync::Once = std::sync::Once::new();

/// Mark the start of one case.  If it is still running VERIF_WATCHDOG seconds later (default 120; cases take micro- to
/// milliseconds) the process writes `{"hang": <description>}` to $VERIF_HANG_FILE and exits with status 3: the code
/// under test does not terminate on that input.
pub fn case_begin(desc: &str) {
    MONITOR.call_once(|| {
        std::thread::spawn(|| {
            let limit: u64 = std::env::var("VERIF_WATCHDOG").ok().and_then(|v| v.parse().ok()).unwrap_or(120);
            loop {
                std::thread::sleep(std::time::Duration::from_millis(500));
                let hung = match &*CASE.lock().unwrap() {
                    Some((t, d)) if t.elapsed().as_secs() >= limit => Some(d.clone()),
                    _ => None,
                };
                if let Some(d) = hung {
                    let body = serde_json::json!({"hang": d, "secs": limit}).to_string();
                    if let Ok(path) = std::env::var("VERIF_HANG_FILE") {
                        let _ = std::fs::write(path, &body);
                    }
                    eprintln!("HARNESS WATCHDOG: case still running after {limit}s: {body}");
                    std::process::exit(3);
                }
            }
        });
    });
    let short: String = desc.chars().take(4000).collect();
    *CASE.lock().unwrap() = Some((std::time::Instant::now(), short));
}
pub fn case_end() {
    *CASE.lock().unwrap() = None;
}

/// Run a closure on a fresh thread (fresh thread-locals: features, symbol table, minimal flag).
pub fn on_fresh_thread<R: Send + 'static>(f: impl FnOnce() -> R + Send + 'static) -> R {
    std::thread::Builder::new()
        .stack_size(16 << 20)
        .spawn(f)
        .expect("spawn")
        .join()
        .expect("harness thread itself must not panic")
}

pub struct Out {
    w: BufWriter<File>,
    pub lines: u64,
}
impl Out {
    pub fn create(path: &str) -> Self {
        Out {
            w: BufWriter::with_capacity(1 << 20, File::create(path).expect("create trace file")),
            lines: 0,
        }
    }
    pub fn emit(&mut self, v: &Value) {
        serde_json::to_writer(&mut self.w, v).unwrap();
        self.w.write_all(b"\n").unwrap();
        self.lines += 1;
    }
    pub fn finish(mut self) -> u64 {
        self.w.flush().unwrap();
        self.lines
    }
}

/// `[[addr, val], ...]` for every word that differs between two memories.
pub fn mem_diff(before: &[u16; 0x10000], after: &[u16; 0x10000]) -> Vec<[u32; 2]> {
    let mut d = Vec::new();
    if before[..] == after[..] {
        return d;
    }
    for a in 0..0x10000usize {
        if before[a] != after[a] {
            d.push([a as u32, after[a] as u32]);
        }
    }
    d
}

pub fn nonzero(mem: &[u16; 0x10000]) -> Vec<[u32; 2]> {
    let mut d = Vec::new();
    for a in 0..0x10000usize {
        if mem[a] != 0 {
            d.push([a as u32, mem[a] as u32]);
        }
    }
    d
}

pub fn zero_snapshot(orig: u16) -> Snapshot {
    Snapshot {
        reg: [0; 8],
        pc: orig,
        cc: 0,
        orig,
        mem: vec![0u16; 0x10000].into_boxed_slice().try_into().unwrap(),
    }
}

pub fn codepoints(s: &str) -> Vec<u32> {
    s.chars().map(|c| c as u32).collect()
}

/// Parse `--key value` style arguments.
pub struct Args(pub Vec<String>);
impl Args {
    pub fn get(&self, key: &str) -> Option<&str> {
        let k = format!("--{}", key);
        self.0
            .iter()
            .position(|a| *a == k)
            .and_then(|i| self.0.get(i + 1))
            .map(|s| s.as_str())
    }
    pub fn num(&self, key: &str, default: u64) -> u64 {
        self.get(key)
            .map(|v| {
                if let Some(h) = v.strip_prefix("0x") {
                    u64::from_str_radix(h, 16).unwrap()
                } else {
                    v.parse().unwrap()
                }
            })
            .unwrap_or(default)
    }
    pub fn flag(&self, key: &str) -> bool {
        self.0.iter().any(|a| *a == format!("--{}", key))
    }
    pub fn req(&self, key: &str) -> &str {
        self.get(key).unwrap_or_else(|| panic!("missing --{}", key))
    }
}
