//! C03 / C09-C13 / C15 / C16 / C17 / C18: executable programs, debugger scripts, sessions.

use serde_json::{json, Value};

use crate::prog::*;
use crate::session::*;
use crate::util::*;

// ---- debugger commands ----------------------------------------------------------------------

#[derive(Clone, Debug)]
pub enum Loc {
    None,
    Reg(i64),
    Addr(i64),
    PcOff(i64),
    Label(String, i64),
}

fn int_text(rng: &mut Rng, v: i64) -> String {
    if v < 0 {
        match rng.below(4) {
            0 => format!("-{}", -v),
            1 => format!("#-{}", -v),
            2 => format!("-x{:x}", -v),
            _ => format!("x-{:X}", -v),
        }
    } else {
        match rng.below(6) {
            0 => format!("{}", v),
            1 => format!("#{}", v),
            2 => format!("x{:x}", v),
            3 => format!("0x{:04X}", v),
            4 => format!("+{}", v),
            _ => format!("o{:o}", v),
        }
    }
}

fn loc_text(rng: &mut Rng, loc: &Loc) -> String {
    match loc {
        Loc::None => String::new(),
        Loc::Reg(r) => format!("{}{}", if rng.chance(1, 2) { "r" } else { "R" }, r),
        Loc::Addr(a) => match rng.below(3) {
            0 => format!("x{:04x}", a),
            1 => format!("#{}", a),
            _ => format!("0x{:X}", a),
        },
        Loc::PcOff(o) => {
            if *o == 0 && rng.chance(1, 2) {
                "^".to_string()
            } else {
                format!("^{}", int_text(rng, *o))
            }
        }
        Loc::Label(n, o) => {
            if *o == 0 {
                n.clone()
            } else if *o > 0 {
                format!("{}+{}", n, match rng.below(3) { 0 => format!("{}", o), 1 => format!("x{:x}", o), _ => format!("#{}", o) })
            } else {
                format!("{}-{}", n, match rng.below(2) { 0 => format!("{}", -o), _ => format!("x{:x}", -o) })
            }
        }
    }
}

fn base(n: &str, loc: &Loc, pure: bool) -> Value {
    let (lt, lv, ln) = match loc {
        Loc::None => ("none", 0, String::new()),
        Loc::Reg(r) => ("reg", *r, String::new()),
        Loc::Addr(a) => ("addr", *a, String::new()),
        Loc::PcOff(o) => ("pcoff", *o, String::new()),
        Loc::Label(n, o) => ("label", *o, n.clone()),
    };
    json!({"n": n, "lt": lt, "lv": lv, "ln": ln, "v": 0, "s": "", "wf": true, "pure": pure, "it": plain("ret").to_json()})
}

pub fn simple(n: &'static str, rng: &mut Rng) -> Cmd {
    let names: &[&str] = match n {
        "help" => &["help", "h", "HELP", "man"],
        "step" => &["step", "s", "S"],
        "stepout" => &["step out", "so", "s o", "stepout", "step o"],
        "continue" => &["continue", "c", "cont", "C"],
        "registers" => &["registers", "r", "reg"],
        "reset" => &["reset", "z"],
        "quit" => &["quit", "q"],
        "exit" => &["exit", "x", ":q"],
        "breaklist" => &["break list", "bl", "b l", "breaklist", "break l"],
        _ => panic!("not simple: {n}"),
    };
    let pure = !matches!(n, "reset" | "exit");
    Cmd { text: rng.pick(names).to_string(), c: base(n, &Loc::None, pure) }
}

pub fn stepinto(count: Option<i64>, rng: &mut Rng) -> Cmd {
    let name = *rng.pick(&["step into", "si", "s i", "stepinto", "step i"]);
    let mut c = base("stepinto", &Loc::None, true);
    match count {
        None => {
            c["v"] = json!(1);
            Cmd { text: name.to_string(), c }
        }
        Some(k) => {
            c["v"] = json!(k);
            Cmd { text: format!("{} {}", name, int_text(rng, k)), c }
        }
    }
}

pub fn with_loc(n: &'static str, loc: Loc, rng: &mut Rng) -> Cmd {
    let names: &[&str] = match n {
        "print" => &["print", "p"],
        "goto" => &["goto", "g"],
        "assembly" => &["assembly", "a", "asm"],
        "breakadd" => &["break add", "ba", "b a", "breakadd", "break a"],
        "breakremove" => &["break remove", "br", "b r", "breakremove", "break r"],
        _ => panic!("no loc command {n}"),
    };
    let pure = n != "goto";
    let name = *rng.pick(names);
    let lt = loc_text(rng, &loc);
    let mut c = base(n, &loc, pure);
    if n == "assembly" && matches!(loc, Loc::None) {
        c["lt"] = json!("pcoff");
    }
    Cmd { text: if lt.is_empty() { name.to_string() } else { format!("{} {}", name, lt) }, c }
}

pub fn mov(loc: Loc, value: i64, rng: &mut Rng) -> Cmd {
    let name = *rng.pick(&["move", "m"]);
    let lt = loc_text(rng, &loc);
    let mut c = base("move", &loc, false);
    // the value argument is a 16-bit word, negative values are cast
    c["v"] = json!(if value < 0 { value + 65536 } else { value });
    Cmd { text: format!("{} {} {}", name, lt, int_text(rng, value)), c }
}

pub fn echo(s: &str) -> Cmd {
    let mut c = base("echo", &Loc::None, true);
    c["s"] = json!(s);
    Cmd { text: format!("echo {}", s), c }
}

pub fn invalid(text: &str) -> Cmd {
    Cmd { text: text.to_string(), c: base("invalid", &Loc::None, true) }
}

pub fn eval(it: &Item, wf: bool, text_override: Option<String>, rng: &mut Rng) -> Cmd {
    let name = *rng.pick(&["eval", "e"]);
    let mut c = base("eval", &Loc::None, false);
    c["it"] = it.to_json();
    c["wf"] = json!(wf);
    // (a command is one line: no line breaks inside the instruction text)
    let body = text_override.unwrap_or_else(|| render_stmt(rng, it, true).replace('\n', " "));
    Cmd { text: format!("{} {}", name, body), c }
}

// ---- executable programs --------------------------------------------------------------------

pub struct Prog {
    pub name: String,
    pub ast: Vec<Item>,
    pub stack: bool,
    pub input: Vec<u8>,
    /// labels that exist (for scripts)
    pub labels: Vec<String>,
    pub mayloop: bool,
}

fn p(name: &str, stack: bool, input: &[u8], ast: Vec<Item>) -> Prog {
    let labels = ast.iter().flat_map(|i| i.labs.clone()).collect();
    Prog { name: name.to_string(), ast, stack, input: input.to_vec(), labels, mayloop: false }
}

fn halt() -> Item {
    plain("halt")
}

/// Hand-written catalogue: every control-flow shape the debugger properties talk about.
pub fn catalogue() -> Vec<Prog> {
    let mut v = Vec::new();
    v.push(p("straight", false, b"", vec![add_i(0, 0, 5), add_i(1, 0, -2), and_r(2, 0, 1), not(3, 2), halt()]));
    v.push(p("loop", false, b"", vec![
        and_i(1, 1, 0), add_i(1, 1, 3),
        add_i(0, 0, 2).lab("top"), add_i(1, 1, -1), br_lab(1, "top"),
        pc_lab("st", 0, "res"), halt(), fill(0).lab("res"),
    ]));
    v.push(p("branches", false, b"", vec![
        and_i(0, 0, 0), br_lab(2, "z"), add_i(5, 5, 1), add_i(0, 0, -1).lab("z"), br_lab(1, "never"), br_lab(4, "n"),
        add_i(5, 5, 2), add_i(2, 2, 1).lab("n"), br_lab(7, "end"), add_i(5, 5, 4).lab("never"), halt().lab("end"),
    ]));
    v.push(p("jsr", false, b"", vec![
        add_i(0, 0, 1), pc_lab("jsr", 0, "outer"), add_i(0, 0, 1), halt(),
        pc_lab("st", 7, "save").lab("outer"), pc_lab("jsr", 0, "inner"), add_i(1, 1, 1), pc_lab("ld", 7, "save"), plain("ret"),
        add_i(2, 2, 7).lab("inner"), plain("ret"), fill(0).lab("save"),
    ]));
    v.push(p("jsrr", false, b"", vec![
        pc_lab("lea", 3, "sub"), reg1("jsrr", 3), add_i(0, 0, 1), pc_lab("lea", 7, "sub2"), reg1("jsrr", 7), halt(),
        add_i(1, 1, 3).lab("sub"), plain("ret"), add_i(2, 2, 4).lab("sub2"), plain("ret"),
    ]));
    v.push(p("recursive", true, b"", vec![
        and_i(0, 0, 0), add_i(0, 0, 3), pc_lab("call", 0, "down"), add_i(4, 4, 1), halt(),
        add_i(0, 0, -1).lab("down"), br_lab(2, "bottom"), reg1("push", 0), pc_lab("call", 0, "down").lab("site"), reg1("pop", 0),
        add_i(5, 5, 1).lab("bottom"), plain("rets"),
    ]));
    v.push(p("callnest", true, b"", vec![
        pc_lab("call", 0, "f"), add_i(3, 3, 1), pc_lab("call", 0, "g"), halt(),
        add_i(1, 1, 1).lab("f"), pc_lab("call", 0, "g"), add_i(1, 1, 1), plain("rets"),
        add_i(2, 2, 1).lab("g"), reg1("push", 2), reg1("pop", 6), plain("rets"),
    ]));
    v.push(p("selfmod", false, b"", vec![
        pc_lab("ld", 2, "tmpl"), pc_lab("st", 2, "slot"), and_i(0, 0, 0), add_i(0, 0, 1).lab("slot"), pc_lab("st", 0, "out1"),
        pc_lab("lea", 4, "slot"), base_off("str", 0, 4, -20), halt(), add_i(0, 0, 9).lab("tmpl"), fill(0).lab("out1"),
    ]));
    v.push(p("haltmid", false, b"", vec![add_i(0, 0, 1), halt(), add_i(0, 0, 2).lab("after"), add_i(0, 0, 3), halt()]));
    v.push(p("falloff", false, b"", vec![add_i(0, 0, 1), add_i(1, 0, 1), add_i(2, 1, 1)]));
    v.push(p("jmpffff", false, b"", vec![pc_lab("ld", 0, "t"), add_i(1, 1, 1), reg1("jmp", 0), add_i(1, 1, 1), halt(), fill(0xFFFF).lab("t")]));
    v.push(p("jmplow", false, b"", vec![orig(0x4000), pc_lab("ld", 0, "t"), reg1("jmp", 0), halt(), fill(0x3FFF).lab("t")]));
    v.push(p("jmphigh", false, b"", vec![pc_lab("ld", 0, "t"), reg1("jmp", 0), halt(), fill(0xFE00).lab("t")]));
    v.push(p("jmpzero", false, b"", vec![and_i(0, 0, 0), reg1("jmp", 0), halt()]));
    v.push(p("breaks", false, b"", vec![
        plain("break"), add_i(0, 0, 1), add_i(0, 0, 1), plain("break").lab("mid"), plain("break"), add_i(0, 0, 1).lab("q1"),
        br_lab(7, "skip"), add_i(0, 0, 1), plain("break"), halt().lab("skip"), plain("break"),
    ]));
    v.push(p("breakloop", false, b"", vec![
        and_i(1, 1, 0), add_i(1, 1, 3), plain("break"), add_i(1, 1, -1).lab("top"), br_lab(1, "top"), halt(),
    ]));
    v.push(p("tightloop", false, b"", vec![
        and_i(1, 1, 0), add_i(1, 1, 4), pc_lab("lea", 2, "here"), pc_lab("ld", 3, "dec"), add_i(1, 1, -1).lab("here"), br_lab(1, "here"), halt(),
        fill(0).lab("dec"),
    ]));
    v.push(p("io", false, b"Az\x80\xff", vec![
        plain("getc"), plain("out"), plain("in"), pc_lab("lea", 0, "msg"), plain("puts"), pc_lab("ld", 0, "num"), plain("putn"),
        plain("reg"), plain("getc"), plain("out"), pc_lab("lea", 0, "pk"), plain("putsp"), pc_lab("lea", 0, "pk2"), plain("putsp"), halt(),
        stringz("Hi!\n").lab("msg"), fill(-1234).lab("num"), fill(0x6261).lab("pk"), fill(0x0063), fill(0),
        fill(0x6867).lab("pk2"), fill(0x0069), fill(0x6b6a), fill(0),
    ]));
    // IN and GETC each given bytes >= 0x80 (and an ASCII one between them)
    v.push(p("in_nonascii", false, b"\xc3\xa9A\xff\x80z", vec![plain("in"), plain("in"), plain("in"), plain("getc"), plain("in"), plain("getc"), halt()]));
    v.push(p("eofin", false, b"A", vec![plain("getc"), plain("getc"), halt()]));
    // a subroutine that never returns: it halts (error exit)
    v.push(p("failcall", false, b"", vec![pc_lab("lea", 0, "emsg"), pc_lab("jsr", 0, "fail"), add_i(1, 1, 1), halt(),
                                          plain("puts").lab("fail"), halt(), stringz("E").lab("emsg")]));
    v.push(p("failcall2", true, b"", vec![pc_lab("call", 0, "fail"), add_i(1, 1, 1), halt(), add_i(2, 2, 2).lab("fail"), trap(0x30)]));
    v.push(p("badtrap", false, b"", vec![add_i(0, 0, 1), trap(0x30), halt()]));
    v.push(p("rawd_off", false, b"", vec![add_i(0, 0, 1), fill(0xD000 + 0x400 + 0x40), halt()]));
    // ... reached while R7 points outside user space: the gate comes first whatever the stack pointer is
    v.push(p("rawd_off_r7top", false, b"", vec![and_i(7, 7, 0), add_i(7, 7, -1), fill(0xD000 + 0x400 + 0x40), halt()]));
    v.push(p("rawd_off_r7low", false, b"", vec![pc_lab("ld", 7, "v"), fill(0xD000 + 0x80), halt(), fill(0x2FFF).lab("v")]));
    v.push(p("rawd_off_r7zero", false, b"", vec![and_i(7, 7, 0), fill(0xD000), halt()]));
    v.push(p("rawd_on", true, b"", vec![add_i(0, 0, 1), fill(0xD000 + 0x400 + 0x40), fill(0xD000 + 0x80), halt()]));
    v.push(p("highorig", false, b"", vec![orig(0xFDFC), add_i(0, 0, 1), add_i(0, 0, 1).lab("l2"), add_i(0, 0, 1)]));
    // images that straddle the end of user space (with .break beyond it) and the sign boundary of 16-bit addresses
    v.push(p("straddle", false, b"", vec![orig(0xFDFD), add_i(0, 0, 1), halt().lab("stop"), fill(1).lab("last"), plain("break"), fill(2).lab("hi"),
                                         plain("break"), fill(3), fill(4).lab("hi2")]));
    v.push(p("mid8000", false, b"", vec![orig(0x7FFD), add_i(0, 0, 1), add_i(1, 1, 1).lab("lo1"), add_i(2, 2, 1).lab("lo"), plain("break"), add_i(3, 3, 1).lab("hi8"),
                                        add_i(4, 4, 1), halt().lab("done8"), fill(7).lab("far8")]));
    // a call to the very next instruction (the read-my-own-address idiom): the return address is reached after one instruction
    v.push(p("jsrnext", false, b"", vec![add_i(0, 0, 1), pc_lab("jsr", 0, "here"), add_i(1, 7, 0).lab("here"), pc_lab("lea", 2, "h2"), reg1("jsrr", 2),
                                        add_i(3, 7, 0).lab("h2"), halt()]));
    v.push(p("callnext", true, b"", vec![add_i(0, 0, 1), pc_lab("call", 0, "here"), reg1("pop", 1).lab("here"), add_i(2, 1, 0), halt()]));
    // HALT written as a raw TRAP word with bits 11:8 set (the VM decodes bits 7:0 only): still a HALT for the debugger
    v.push(p("halthigh", false, b"", vec![add_i(0, 0, 1), add_i(1, 1, 1), fill(0xF125), add_i(2, 2, 1), halt()]));
    // a store to the very last word of memory (below the origin side is covered by selfmod)
    v.push(p("storetop", false, b"", vec![and_i(1, 1, 0), add_i(0, 0, 9), base_off("str", 0, 1, -1), base_off("ldr", 2, 1, -1), halt()]));
    // .break written BEFORE the .orig line of a program that does not start at the default origin
    v.push(p("breakfirst", false, b"", vec![plain("break"), orig(0x4000), add_i(0, 0, 1), add_i(0, 0, 1).lab("second"), plain("break"), add_i(0, 0, 1), halt()]));
    // two labels that differ only in letter case are two labels
    v.push(p("casepair", false, b"", vec![pc_lab("ld", 0, "count"), pc_lab("ld", 1, "Count"), pc_lab("lea", 2, "COUNT"), halt(),
                                         fill(0x11).lab("count"), fill(0x22).lab("Count"), fill(0x33).lab("COUNT")]));
    // labels that only LOOK like a register or a literal (an underscore makes them identifiers)
    v.push(p("oddlabels", false, b"", vec![pc_lab("ld", 0, "r1_loop"), pc_lab("ld", 1, "R7_SAVE"), pc_lab("lea", 2, "x30_05"), add_i(3, 3, 1).lab("r0_"), halt(),
                                          fill(0x11).lab("r1_loop"), fill(0x22).lab("R7_SAVE"), fill(0x33).lab("x30_05"), fill(0x44).lab("b_101"), fill(0x55).lab("o_7")]));
    // a string that starts in the last word of memory and goes on at x0000: PUTS and PUTSP walk addresses modulo 2^16
    v.push(p("putswrap", false, b"", vec![and_i(1, 1, 0), pc_lab("ld", 0, "cha"), base_off("str", 0, 1, -1), pc_lab("ld", 0, "chb"), base_off("str", 0, 1, 0),
                                         pc_lab("ld", 0, "chc"), base_off("str", 0, 1, 1), add_i(0, 1, -1), plain("puts"), plain("putsp"), halt(),
                                         fill(0x4241).lab("cha"), fill(0x0043).lab("chb"), fill(0x4544).lab("chc")]));
    v.push(p("wrapld", false, b"", vec![orig(0x0000), pc_lit("ld", 0, -3), pc_lit("st", 0, -4), pc_lit("lea", 1, -2), base_off("ldr", 2, 1, -1), halt()]));
    v.push(p("data", false, b"", vec![
        pc_lab("ld", 0, "a"), pc_lab("ldi", 1, "pa"), pc_lab("lea", 2, "a"), base_off("ldr", 3, 2, 1), base_off("str", 3, 2, 2),
        pc_lab("sti", 0, "pa"), halt(), fill(0x1111).lab("a"), fill(0x2222), blkw(2).lab("blk"), pc_lab("lea", 0, "a").lab("pa"),
        stringz("s").lab("strz"),
    ]));
    v
}

/// Seeded structured program that terminates by construction.
pub fn random_prog(rng: &mut Rng, idx: usize) -> Prog {
    let stack = rng.chance(1, 2);
    let mut code: Vec<Item> = Vec::new();
    let mut subs: Vec<Item> = Vec::new();
    let mut data: Vec<Item> = Vec::new();
    let mut nlab = 0usize;
    let mut fresh = |stem: &str| {
        nlab += 1;
        format!("{}{}", stem, nlab)
    };
    // data area
    let ndata = 2 + rng.below(4) as usize;
    let mut dlabels = Vec::new();
    for _ in 0..ndata {
        let l = fresh("d");
        let it = match rng.below(4) {
            0 => fill(rng.boundary_word() as i64),
            1 => blkw(1 + rng.below(3) as i64),
            2 => stringz(*rng.pick(&["ok", "x", "Hello", "a;b"])),
            _ => fill(rng.range(-200, 200)),
        };
        data.push(it.lab(&l));
        dlabels.push(l);
    }
    let strl = fresh("s");
    data.push(stringz(*rng.pick(&["done\n", "[]", "lace"])).lab(&strl));
    let ptr = fresh("p");
    data.push(pc_lab("lea", 0, &dlabels[0]).lab(&ptr)); // a word that happens to hold something; used as a pointer cell
    let cell = fresh("c");
    data.push(fill(0).lab(&cell));

    let arith = |rng: &mut Rng, out: &mut Vec<Item>, dl: &Vec<String>| {
        let r = |rng: &mut Rng| *rng.pick(&[0i64, 3, 4, 5]);
        for _ in 0..1 + rng.below(4) {
            out.push(match rng.below(9) {
                0 => add_i(r(rng), r(rng), rng.range(-16, 15)),
                1 => add_r(r(rng), r(rng), r(rng)),
                2 => and_i(r(rng), r(rng), rng.range(-16, 15)),
                3 => not(r(rng), r(rng)),
                4 => pc_lab("ld", r(rng), &rng.pick_string(dl)),
                5 => pc_lab("st", r(rng), &rng.pick_string(dl)),
                6 => pc_lab("lea", r(rng), &rng.pick_string(dl)),
                7 => and_r(r(rng), r(rng), r(rng)),
                _ => add_i(r(rng), r(rng), 1),
            });
        }
    };
    let blocks = 2 + rng.below(4);
    let mut input: Vec<u8> = Vec::new();
    for _ in 0..blocks {
        match rng.below(8) {
            0 | 1 => arith(rng, &mut code, &dlabels),
            2 => {
                // counted loop on R1 (body never touches R1/R2)
                let top = fresh("L");
                code.push(and_i(1, 1, 0));
                code.push(add_i(1, 1, 1 + rng.below(4) as i64));
                let start = code.len();
                arith(rng, &mut code, &dlabels);
                code[start].labs.push(top.clone());
                code.push(add_i(1, 1, -1));
                code.push(br_lab(1, &top));
            }
            3 => {
                // subroutine call
                let f = fresh("f");
                if stack {
                    code.push(pc_lab("call", 0, &f));
                    let mut body = Vec::new();
                    arith(rng, &mut body, &dlabels);
                    body[0].labs.push(f.clone());
                    if rng.chance(1, 2) {
                        body.push(reg1("push", 3));
                        body.push(add_i(3, 3, 1));
                        body.push(reg1("pop", 3));
                    }
                    body.push(plain("rets"));
                    subs.extend(body);
                } else {
                    code.push(pc_lab("jsr", 0, &f));
                    let mut body = Vec::new();
                    arith(rng, &mut body, &dlabels);
                    body[0].labs.push(f.clone());
                    body.push(plain("ret"));
                    subs.extend(body);
                }
            }
            4 => {
                // output
                match rng.below(4) {
                    0 => {
                        code.push(pc_lab("lea", 0, &strl));
                        code.push(plain("puts"));
                    }
                    1 => code.push(plain("putn")),
                    2 => code.push(plain("out")),
                    _ => code.push(plain("reg")),
                }
            }
            5 => {
                // input
                let b = if rng.chance(1, 3) { 0x80 + rng.below(0x80) as u8 } else { 0x20 + rng.below(0x5f) as u8 };
                input.push(b);
                code.push(plain(if rng.chance(1, 2) { "getc" } else { "in" }));
            }
            6 => {
                // indirect / base+offset access through a pointer
                code.push(pc_lab("lea", 4, &dlabels[0]));
                code.push(base_off("ldr", 5, 4, rng.range(0, 2)));
                code.push(base_off("str", 5, 4, rng.range(0, 1)));
                code.push(pc_lab("st", 4, &cell));
                code.push(pc_lab("ldi", 3, &cell));
                code.push(pc_lab("sti", 5, &cell));
            }
            _ => {
                // self-modifying store: overwrite the next instruction with a template
                let tmpl = fresh("t");
                let slot = fresh("m");
                code.push(pc_lab("ld", 5, &tmpl));
                code.push(pc_lab("st", 5, &slot));
                code.push(add_i(3, 3, 1).lab(&slot));
                data.push(add_i(3, 3, rng.range(2, 9)).lab(&tmpl));
            }
        }
    }
    // ending
    let ending = rng.below(10);
    match ending {
        0 => {} // fall off the end (only sound when nothing follows: handled below)
        1 => {
            let t = fresh("e");
            code.push(pc_lab("ld", 5, &t));
            code.push(reg1("jmp", 5));
            data.push(fill(*rng.pick(&[0xFFFFi64, 0xFE00, 0x0000, 0xFDFF + 1])).lab(&t));
        }
        2 => code.push(trap(*rng.pick(&[0x00i64, 0x1F, 0x28, 0xFF]))),
        _ => code.push(halt()),
    }
    let mut ast = Vec::new();
    if rng.chance(1, 2) {
        ast.push(orig(*rng.pick(&[0x3000i64, 0x0200, 0x8000, 0xC000, 0x7FF0])));
    }
    ast.extend(code);
    if ending == 0 {
        // falling off the end must reach the sentinel: put subroutines/data first instead
        let mut pre = Vec::new();
        let skip = fresh("go");
        pre.push(br_lab(7, &skip));
        pre.extend(subs);
        pre.extend(data);
        let n = ast.len();
        let has_orig = ast.first().map(|i| i.k == "orig").unwrap_or(false);
        let mut body: Vec<Item> = ast.drain(if has_orig { 1 } else { 0 }..n).collect();
        body[0].labs.insert(0, skip.clone());
        if body[0].labs.len() > 1 {
            // a statement can carry only one label: give the first one to a no-op
            let extra = body[0].labs.remove(0);
            body.insert(0, and_r(6, 6, 6).lab(&extra));
        }
        ast.extend(pre);
        ast.extend(body);
    } else {
        ast.extend(subs);
        ast.extend(data);
    }
    // .break directives
    for _ in 0..rng.below(3) {
        let at = rng.below(ast.len() as u64 + 1) as usize;
        if at > 0 || ast.first().map(|i| i.k != "orig").unwrap_or(true) {
            ast.insert(at, plain("break"));
        }
    }
    let labels = ast.iter().flat_map(|i| i.labs.clone()).collect();
    Prog { name: format!("rand{}", idx), ast, stack, input, labels, mayloop: false }
}

// ---- scripts ----------------------------------------------------------------------------------

fn random_loc(rng: &mut Rng, prog: &Prog, orig: i64, n: i64) -> Loc {
    match rng.below(10) {
        0 | 1 => Loc::Addr((orig + rng.range(0, n.max(1))).rem_euclid(65536)),
        2 => Loc::Addr((*rng.pick(&[0i64, orig - 1, 0x7FFF, 0x8000, 0xFDFF, 0xFE00, 0xFFFF, orig])).rem_euclid(65536)),
        3 => Loc::PcOff(rng.range(-3, 3)),
        4 => Loc::PcOff(*rng.pick(&[0i64, 1, -1, 32767, -32768, 200, -200])),
        5 | 6 | 7 if !prog.labels.is_empty() => {
            let l = rng.pick(&prog.labels).clone();
            Loc::Label(l, if rng.chance(2, 3) { 0 } else { rng.range(-2, 3) })
        }
        8 if !prog.labels.is_empty() => {
            let l = rng.pick(&prog.labels).clone();
            Loc::Label(l, *rng.pick(&[32767i64, -32768, 1000, -1000]))
        }
        _ => Loc::Label(rng.pick(&["nolabel", "MISSING", "Top"]).to_string(), 0),
    }
}

fn eval_item(rng: &mut Rng, prog: &Prog) -> Item {
    let r = |rng: &mut Rng| rng.below(8) as i64;
    let lab = |rng: &mut Rng, prog: &Prog| {
        if prog.labels.is_empty() || rng.chance(1, 8) { "nolabel".to_string() } else { rng.pick(&prog.labels).clone() }
    };
    match rng.below(16) {
        0 => add_i(r(rng), r(rng), rng.range(-16, 15)),
        1 => add_r(r(rng), r(rng), r(rng)),
        2 => and_i(r(rng), r(rng), rng.range(-16, 15)),
        3 => not(r(rng), r(rng)),
        4 => pc_lab("ld", r(rng), &lab(rng, prog)),
        5 => pc_lab("ldi", r(rng), &lab(rng, prog)),
        6 => pc_lab("lea", r(rng), &lab(rng, prog)),
        7 => pc_lab("st", r(rng), &lab(rng, prog)),
        8 => pc_lab("sti", r(rng), &lab(rng, prog)),
        9 => base_off("ldr", r(rng), r(rng), rng.range(-32, 31)),
        10 => base_off("str", r(rng), r(rng), rng.range(-32, 31)),
        11 => reg1("jmp", r(rng)),
        12 => plain(*rng.pick(&["putn", "reg", "out", "ret"])),
        13 => reg1(*rng.pick(&["push", "pop"]), r(rng)),
        14 => br_lab(rng.range(1, 7), &lab(rng, prog)),
        _ => match rng.below(5) {
            0 => plain("halt"),
            1 => plain("rti"),
            2 => trap(0x25),
            3 => trap(*rng.pick(&[0i64, 0x1f, 0x28, 0xff])),
            _ => trap(0x26),
        },
    }
}

pub fn random_cmd(rng: &mut Rng, prog: &Prog, orig: i64, n: i64, mutating: bool) -> Cmd {
    let k = rng.below(if mutating { 24 } else { 17 });
    match k {
        0 => simple("step", rng),
        1 => stepinto(Some(*rng.pick(&[0i64, 1, 2, 3, 5, 9])), rng),
        2 => stepinto(None, rng),
        3 => simple("stepout", rng),
        4 => simple("continue", rng),
        5 => simple("registers", rng),
        6 => with_loc("print", if rng.chance(1, 3) { Loc::Reg(rng.below(8) as i64) } else { random_loc(rng, prog, orig, n) }, rng),
        7 => {
            let l = if rng.chance(1, 3) { Loc::None } else { random_loc(rng, prog, orig, n) };
            with_loc("assembly", l, rng)
        }
        8 | 9 => { let l = random_loc(rng, prog, orig, n); with_loc("breakadd", l, rng) }
        10 => { let l = random_loc(rng, prog, orig, n); with_loc("breakremove", l, rng) }
        11 => simple("breaklist", rng),
        12 => echo(*rng.pick(&["hello", "a b  c", "x3000", "ünï"])),
        13 => invalid(*rng.pick(&["bogus", "print", "move r0", "goto", "break", "break foo", "si r1", "print r0 r1", "p x1ffff", "step 3", "finish"])),
        14 => simple("help", rng),
        15 => stepinto(Some(*rng.pick(&[70000i64 % 65536, 40, 100])), rng),
        16 => simple("step", rng),
        17 | 18 => {
            let loc = if rng.chance(1, 2) { Loc::Reg(rng.below(8) as i64) } else { random_loc(rng, prog, orig, n) };
            let v = if rng.chance(1, 2) { rng.boundary_word() as i64 } else { rng.range(-32768, 65535) };
            mov(loc, v, rng)
        }
        19 => { let l = random_loc(rng, prog, orig, n); with_loc("goto", l, rng) }
        20 | 21 => {
            let it = eval_item(rng, prog);
            eval(&it, true, None, rng)
        }
        22 => simple("reset", rng),
        23 if rng.chance(2, 3) => {
            // malformed eval text derived from a well-formed instruction: one operand missing, one token too many, or one operand of the wrong kind
            let it = eval_item(rng, prog);
            let canon = render_stmt(rng, &it, false);
            let mut toks: Vec<String> = canon.split_whitespace().map(|t| t.trim_matches(',').to_string()).filter(|t| !t.is_empty()).collect();
            const ZOO: [&str; 16] = ["r1", "#1", "x10", "foo", "\"s\"", ".end", ".END x1", ".fill", ".break", ".orig", ".blkw", ".stringz", "halt", "add", "\"\"", ".end add r4 r1 r1"];
            let is_reg = |t: &str| t.len() == 2 && (t.starts_with('r') || t.starts_with('R')) && t.as_bytes()[1].is_ascii_digit();
            match rng.below(3) {
                0 if toks.len() > 1 => { toks.pop(); }
                1 if toks.len() > 1 => {
                    let k = 1 + rng.below(toks.len() as u64 - 1) as usize;
                    // (the third operand of ADD/AND may be a register or an immediate: only kinds that fit neither)
                    let third_of_alu = k == 3 && ["add", "and"].contains(&toks[0].to_lowercase().as_str());
                    let repl: &[&str] = if is_reg(&toks[k]) && third_of_alu { &["\"r1\"", ".fill", "foo"] }
                                        else if is_reg(&toks[k]) { &["#1", "\"r1\"", ".fill", "x3"] }
                                        else if toks[k].starts_with('#') || toks[k].starts_with('x') { &["\"1\"", ".end", "foo", "\"#2\""] }
                                        else { &["r1", "\"lab\"", ".end", "\"\""] };
                    toks[k] = rng.pick(repl).to_string();
                }
                _ => toks.push(rng.pick(&ZOO).to_string()),
            }
            eval(&add_i(1, 1, 1), false, Some(toks.join(" ")), rng)
        }
        _ => {
            // malformed eval text
            let it = add_i(1, 1, 1);
            let txt = *rng.pick(&["lea r1 #300", "ld r2 x12c", "st r4 #-257", "ldi r3 #256", "sti r3 #-300", "jsr #1024", "jsr #-1025", "lea r1 #32767", "ld r1 x-8000",
                                  ".fill x41", ".FILL #-1", ".stringz \"ok\"", ".break", ".blkw #2", ".orig x3000",
                                  ".end", ".end add r1 r1 #1", "\"add\" r1 r1 #1", "add r3 r1 \"2\"", "trap \"x21\"", "jmp r1 .end", "add r1 r1", "add r1 r1 r1 r1", "add r1 r1 #1 #2", "add r1 #1 r1", ".fill x3000", "add r1 r1 #1 add r2 r2 #1",
                                  "lea r0", "foo", "ld r0 r1", "not r1", "add r1, r1, #99", "trap", "x3000", "r1", "puts r0", "ret r7"]);
            eval(&it, false, Some(txt.to_string()), rng)
        }
    }
}

fn render_prog(rng: &mut Rng, prog: &Prog, wild: bool) -> Program {
    let r = render(rng, &prog.ast, &Layout { wild, comments: wild });
    Program::Asm { src: r.src, ast: prog.ast.clone(), texts: r.texts }
}

pub fn words_of(prog: &Prog) -> i64 {
    prog.ast.iter().map(|it| match it.k { "orig" | "break" | "end" => 0, "blkw" => it.c, "stringz" => it.s.len() as i64 + 1, _ => 1 }).sum()
}
fn orig_of(prog: &Prog) -> i64 {
    prog.ast.iter().find(|i| i.k == "orig").map(|i| i.c).unwrap_or(0x3000)
}

// ---- session families -------------------------------------------------------------------------

fn sessions_run(rng: &mut Rng, n: usize) -> Vec<Session> {
    let mut out = Vec::new();
    for prog in catalogue() {
        for wild in [false, true] {
            out.push(Session { id: format!("run:{}:{}", prog.name, wild as u8), program: render_prog(rng, &prog, wild), stack: prog.stack,
                               input: prog.input.clone(), script: None, fuel: 20_000, mayloop: false });
        }
        // the other flag value (C18)
        out.push(Session { id: format!("run:{}:flip", prog.name), program: render_prog(rng, &prog, false), stack: !prog.stack,
                           input: prog.input.clone(), script: None, fuel: 20_000, mayloop: false });
    }
    for i in 0..n {
        let prog = random_prog(rng, i);
        let mut input = prog.input.clone();
        if rng.chance(1, 6) && !input.is_empty() {
            input.pop(); // premature end of input
        }
        out.push(Session { id: format!("run:{}", prog.name), program: render_prog(rng, &prog, true), stack: prog.stack,
                           input, script: None, fuel: 20_000, mayloop: false });
    }
    out
}

/// Arbitrary word images executed under a step budget.
fn sessions_tiny(rng: &mut Rng, n: usize, exhaustive: bool) -> Vec<Session> {
    const WORDS: [u16; 28] = [
        0x0000, 0x0FFF, 0x0E01, 0x0401, 0x1021, 0x103F, 0x5020, 0x2001, 0x3001, 0x21FF, 0x4801, 0x4040, 0x6040, 0x7040, 0x903F,
        0xA000, 0xB001, 0xC000, 0xC1C0, 0xD440, 0xD040, 0xDC01, 0xD800, 0xE1FF, 0xF025, 0xF021, 0xF030, 0x8000,
    ];
    const ORIGS: [u16; 9] = [0x0000, 0x3000, 0x7FFF, 0xFDFD, 0xFDFE, 0xFDFF, 0xFE00, 0xFFFE, 0xFFFF];
    let mut out = Vec::new();
    let mut push = |o: u16, ws: Vec<u16>, stack: bool, rng: &mut Rng| {
        let mut raw = vec![o];
        raw.extend(ws);
        out.push(Session { id: format!("tiny:{:04x}:{}", o, out.len()), program: Program::Raw(raw), stack, input: vec![rng.below(256) as u8],
                           script: None, fuel: 300, mayloop: true });
    };
    if exhaustive {
        for &o in &ORIGS {
            push(o, vec![], false, rng);
            for &a in &WORDS {
                push(o, vec![a], true, rng);
                for &b in &WORDS {
                    push(o, vec![a, b], (a ^ b) & 1 == 0, rng);
                }
            }
        }
    }
    for _ in 0..n {
        let o = if rng.chance(1, 2) { *rng.pick(&ORIGS) } else { rng.word() };
        let len = rng.below(6) as usize;
        let ws: Vec<u16> = (0..len).map(|_| if rng.chance(2, 3) { *rng.pick(&WORDS) } else { rng.word() }).collect();
        let st = rng.chance(1, 2);
        push(o, ws, st, rng);
    }
    out
}

fn allowed(focus: &str, name: &str) -> bool {
    let set: &[&str] = match focus {
        "pure" => &["step", "stepinto", "stepout", "continue", "registers", "print", "assembly", "breakadd", "breakremove", "breaklist", "echo", "invalid", "help"],
        "step" => &["step", "stepinto", "stepout", "continue", "breakadd", "breakremove", "registers"],
        "break" => &["breakadd", "breakremove", "breaklist", "continue", "step", "stepinto", "stepout", "goto"],
        "reset" => &["reset", "move", "goto", "eval", "step", "stepinto", "continue", "registers", "print"],
        "loc" => &["move", "goto", "breakadd", "breakremove", "print", "assembly", "breaklist", "registers", "stepinto"],
        "eval" => &["eval", "goto", "stepinto", "registers", "move"],
        "progress" => &["continue", "step", "stepinto", "stepout", "goto", "eval", "move", "invalid"],
        _ => return true,
    };
    set.contains(&name)
}

fn focused_cmd(rng: &mut Rng, prog: &Prog, orig: i64, n: i64, focus: &str) -> Cmd {
    let mutating = !matches!(focus, "pure" | "step");
    loop {
        let c = random_cmd(rng, prog, orig, n, mutating);
        if allowed(focus, c.c["n"].as_str().unwrap()) {
            return c;
        }
    }
}

/// All scripts of length <= `len` over a small stepping/breakpoint alphabet, on catalogue programs.
fn sessions_enum(rng: &mut Rng, len: usize, stride: usize, phase: usize) -> Vec<Session> {
    let mut out = Vec::new();
    let mut counter = 0usize;
    for prog in catalogue() {
        let mut alphabet: Vec<Cmd> = vec![
            simple("step", rng), stepinto(Some(0), rng), stepinto(Some(2), rng), stepinto(Some(5), rng), simple("stepout", rng), simple("continue", rng),
        ];
        for l in prog.labels.iter().take(3) {
            alphabet.push(with_loc("breakadd", Loc::Label(l.clone(), 0), rng));
        }
        if let Some(l) = prog.labels.first() {
            alphabet.push(with_loc("breakremove", Loc::Label(l.clone(), 0), rng));
            alphabet.push(with_loc("goto", Loc::Label(l.clone(), 0), rng));
        }
        alphabet.push(with_loc("breakadd", Loc::PcOff(1), rng));
        let k = alphabet.len();
        let mut total = 0usize;
        for l in 1..=len {
            total += k.pow(l as u32);
        }
        let _ = total;
        for l in 1..=len {
            for code in 0..k.pow(l as u32) {
                counter += 1;
                if counter % stride != phase % stride {
                    continue;
                }
                let mut script = Vec::new();
                let mut c = code;
                for _ in 0..l {
                    script.push(alphabet[c % k].clone());
                    c /= k;
                }
                let mutating = script.iter().any(|c| c.c["n"] == "goto");
                if code % 3 == 0 {
                    script.push(simple("exit", rng));
                }
                out.push(Session { id: format!("enum:{}:{}:{}", prog.name, l, code), program: render_prog(rng, &prog, false), stack: prog.stack,
                                   input: prog.input.clone(), script: Some(script), fuel: 1500, mayloop: mutating });
            }
        }
    }
    out
}

/// Hand-written scripts for the situations the properties single out.
fn sessions_scenario(rng: &mut Rng) -> Vec<Session> {
    let lab = |l: &str, o: i64| Loc::Label(l.to_string(), o);
    let mut table: Vec<(&str, Vec<Cmd>, bool)> = Vec::new();
    macro_rules! sc {
        ($prog:expr, $mutating:expr, [$($c:expr),* $(,)?]) => {
            table.push(($prog, vec![$($c),*], $mutating));
        };
    }
    // `step` at a recursive call site (J3), then inspect
    sc!("recursive", false, [with_loc("breakadd", lab("site", 0), rng), simple("continue", rng), simple("step", rng), simple("registers", rng),
                             simple("step", rng), stepinto(None, rng), simple("continue", rng)]);
    sc!("recursive", false, [with_loc("breakadd", lab("down", 0), rng), simple("continue", rng), simple("continue", rng), simple("step", rng),
                             simple("stepout", rng), simple("registers", rng), simple("stepout", rng), simple("stepout", rng)]);
    sc!("recursive", false, [with_loc("breakadd", lab("site", 0), rng), simple("continue", rng), with_loc("breakremove", lab("site", 0), rng), simple("step", rng),
                             simple("registers", rng), simple("continue", rng)]);
    sc!("recursive", false, [stepinto(Some(2), rng), simple("step", rng), simple("registers", rng), simple("step", rng), simple("quit", rng)]);
    // breakpoints on consecutive instructions of a loop: re-arming after exactly one instruction
    sc!("tightloop", false, [with_loc("breakadd", lab("here", 0), rng), with_loc("breakadd", lab("here", 1), rng), simple("continue", rng), simple("continue", rng),
                             simple("continue", rng), simple("continue", rng), simple("breaklist", rng), with_loc("breakremove", lab("here", 1), rng),
                             simple("continue", rng), simple("continue", rng), simple("continue", rng), simple("continue", rng)]);
    sc!("breakloop", false, [simple("continue", rng), simple("continue", rng), simple("step", rng), simple("continue", rng), simple("continue", rng), simple("continue", rng)]);
    // stale breakpoint: pause on it, step onto HALT, go back before it, continue
    sc!("straight", true, [with_loc("breakadd", Loc::Addr(0x3003), rng), simple("continue", rng), simple("step", rng), with_loc("goto", Loc::Addr(0x3002), rng),
                           simple("continue", rng), simple("registers", rng), simple("continue", rng)]);
    sc!("straight", true, [with_loc("breakadd", Loc::PcOff(1), rng), with_loc("breakadd", Loc::PcOff(1), rng), with_loc("breakadd", Loc::PcOff(0), rng),
                           simple("breaklist", rng), simple("continue", rng), with_loc("goto", Loc::PcOff(-1), rng), simple("continue", rng), simple("continue", rng)]);
    // resuming commands with the PC outside user space / on HALT
    for p in ["jmpffff", "jmplow", "jmphigh", "jmpzero"] {
        sc!(p, false, [simple("continue", rng), simple("continue", rng), simple("step", rng), simple("stepout", rng), stepinto(Some(3), rng), simple("registers", rng)]);
        sc!(p, false, [stepinto(Some(9), rng), simple("step", rng), simple("quit", rng)]);
        sc!(p, true, [simple("continue", rng), simple("reset", rng), simple("continue", rng), simple("exit", rng)]);
    }
    sc!("haltmid", true, [simple("continue", rng), simple("continue", rng), simple("step", rng), stepinto(None, rng), with_loc("goto", lab("after", 0), rng),
                          simple("continue", rng), simple("step", rng)]);
    sc!("falloff", false, [simple("continue", rng), simple("continue", rng), simple("step", rng)]);
    sc!("highorig", false, [stepinto(Some(2), rng), simple("continue", rng), simple("continue", rng), simple("step", rng)]);
    // .break in every position
    sc!("breaks", false, [simple("breaklist", rng), simple("continue", rng), simple("continue", rng), simple("continue", rng), simple("continue", rng),
                          simple("continue", rng), simple("continue", rng), simple("continue", rng)]);
    sc!("breaks", false, [with_loc("breakremove", lab("mid", 0), rng), with_loc("breakremove", lab("mid", 0), rng), with_loc("breakadd", lab("skip", 0), rng),
                          simple("breaklist", rng), simple("continue", rng), simple("continue", rng), simple("continue", rng), simple("continue", rng)]);
    // step out
    sc!("jsr", false, [with_loc("breakadd", lab("inner", 0), rng), simple("continue", rng), simple("stepout", rng), simple("registers", rng), simple("stepout", rng)]);
    sc!("callnest", false, [with_loc("breakadd", lab("g", 0), rng), simple("continue", rng), simple("stepout", rng), simple("stepout", rng), simple("stepout", rng),
                            simple("stepout", rng), simple("stepout", rng)]);
    sc!("jsr", false, [simple("step", rng), simple("step", rng), simple("step", rng), simple("step", rng), simple("step", rng)]);
    sc!("jsrr", false, [simple("step", rng), simple("step", rng), simple("step", rng), simple("step", rng), simple("step", rng), simple("step", rng), simple("step", rng)]);
    sc!("branches", false, [simple("step", rng), simple("step", rng), simple("step", rng), simple("step", rng), simple("step", rng), simple("step", rng), simple("step", rng)]);
    sc!("loop", false, [stepinto(Some(0), rng), stepinto(Some(1), rng), stepinto(Some(5), rng), stepinto(Some(100), rng), simple("registers", rng)]);
    // reset after self-modification and stores below the origin / into the stack
    sc!("selfmod", true, [simple("continue", rng), with_loc("print", lab("slot", 0), rng), simple("reset", rng), with_loc("print", lab("slot", 0), rng),
                          simple("registers", rng), simple("continue", rng), simple("reset", rng), simple("reset", rng), simple("quit", rng)]);
    sc!("wrapld", true, [stepinto(Some(3), rng), mov(Loc::Addr(0x10), 7, rng), mov(Loc::Reg(7), 3, rng), simple("reset", rng), simple("registers", rng), simple("continue", rng)]);
    sc!("recursive", true, [stepinto(Some(6), rng), mov(Loc::Addr(0xFDFE), 0x1234, rng), simple("reset", rng), with_loc("print", Loc::Addr(0xFDFE), rng), simple("quit", rng)]);
    // `step` at every instruction, incl. on RET / RETS / a call into a routine that halts
    for pn in ["callnest", "recursive", "jsr", "failcall", "failcall2", "jsrr"] {
        sc!(pn, false, [simple("step", rng), simple("step", rng), simple("step", rng), simple("step", rng), simple("step", rng), simple("step", rng),
                        simple("step", rng), simple("step", rng), simple("step", rng), simple("step", rng), simple("registers", rng)]);
        sc!(pn, false, [stepinto(Some(1), rng), simple("step", rng), stepinto(Some(2), rng), simple("step", rng), stepinto(Some(1), rng), simple("step", rng),
                        stepinto(Some(1), rng), simple("step", rng), simple("step", rng), simple("registers", rng)]);
        sc!(pn, false, [stepinto(Some(3), rng), simple("stepout", rng), simple("step", rng), simple("stepout", rng), simple("step", rng), simple("continue", rng)]);
    }
    // locations spelled relative to a PC that has left user space
    for pn in ["jmpffff", "jmplow", "jmphigh", "jmpzero"] {
        sc!(pn, true, [simple("continue", rng), mov(Loc::PcOff(0), 0x0100, rng), with_loc("breakadd", Loc::PcOff(0), rng), with_loc("breakremove", Loc::PcOff(0), rng),
                       with_loc("print", Loc::PcOff(0), rng), with_loc("assembly", Loc::None, rng), with_loc("goto", Loc::PcOff(0), rng), simple("breaklist", rng),
                       mov(Loc::PcOff(1), 7, rng), mov(Loc::PcOff(-1), 7, rng), simple("registers", rng), simple("exit", rng)]);
    }
    // eval of a jump whose target is PC+1, PC, PC-1
    sc!("straight", true, [mov(Loc::Reg(3), 0x3003, rng), with_loc("goto", Loc::Addr(0x3002), rng), eval(&reg1("jmp", 3), true, None, rng), simple("registers", rng),
                           mov(Loc::Reg(7), 0x3002, rng), with_loc("goto", Loc::Addr(0x3001), rng), eval(&plain("ret"), true, None, rng), simple("registers", rng),
                           mov(Loc::Reg(2), 0x3001, rng), eval(&reg1("jmp", 2), true, None, rng), simple("registers", rng), mov(Loc::Reg(2), 0x3000, rng),
                           eval(&reg1("jmp", 2), true, None, rng), simple("registers", rng), simple("exit", rng)]);
    // only eval changes the machine, then reset
    sc!("data", true, [eval(&add_i(1, 1, 5), true, None, rng), eval(&pc_lab("st", 1, "a"), true, None, rng), simple("reset", rng), simple("registers", rng),
                       with_loc("print", lab("a", 0), rng), simple("continue", rng)]);
    sc!("data", true, [stepinto(Some(2), rng), simple("reset", rng), eval(&not(2, 2), true, None, rng), eval(&base_off("str", 2, 7, 1), true, None, rng),
                       simple("reset", rng), simple("registers", rng), with_loc("print", Loc::Addr(0xFE00), rng), simple("quit", rng)]);
    // a run-time breakpoint over a .break, removal of the first of three, breakpoint on a RET reached by step out
    sc!("breaks", false, [with_loc("breakadd", lab("mid", 0), rng), simple("breaklist", rng), with_loc("breakremove", lab("mid", 0), rng), simple("breaklist", rng),
                          simple("continue", rng), simple("continue", rng), simple("continue", rng), simple("continue", rng), simple("continue", rng)]);
    sc!("loop", false, [with_loc("breakadd", Loc::Addr(0x3001), rng), with_loc("breakadd", Loc::Addr(0x3003), rng), with_loc("breakadd", Loc::Addr(0x3005), rng),
                        with_loc("breakremove", Loc::Addr(0x3001), rng), simple("breaklist", rng), simple("continue", rng), simple("registers", rng),
                        simple("continue", rng), simple("continue", rng), simple("continue", rng)]);
    sc!("callnest", false, [with_loc("breakadd", lab("g", 3), rng), simple("continue", rng), with_loc("breakadd", lab("f", 3), rng), stepinto(Some(1), rng),
                            simple("stepout", rng), simple("registers", rng), simple("stepout", rng), simple("stepout", rng), simple("continue", rng)]);
    sc!("jsr", false, [with_loc("breakadd", lab("inner", 1), rng), stepinto(Some(3), rng), simple("stepout", rng), simple("registers", rng), simple("continue", rng),
                       simple("continue", rng)]);
    // io under the debugger
    sc!("io", false, [stepinto(Some(4), rng), simple("registers", rng), simple("continue", rng)]);
    // a breakpoint on a one-instruction loop (a call to itself) resumed with EVERY resuming command, step out included
    sc!("selfcall", true, [with_loc("breakadd", lab("deeper", 0), rng), simple("continue", rng), simple("stepout", rng), simple("registers", rng), simple("stepout", rng),
                           simple("registers", rng), simple("continue", rng), simple("registers", rng), simple("step", rng), stepinto(Some(1), rng), simple("registers", rng),
                           simple("exit", rng)]);
    sc!("selfbr", true, [with_loc("breakadd", lab("spin", 0), rng), simple("continue", rng), simple("continue", rng), simple("step", rng), stepinto(Some(1), rng),
                         stepinto(Some(3), rng), simple("registers", rng), simple("exit", rng)]);
    // remove the first of three, add the second again (must be refused: it is still there), remove it, run
    sc!("loop", true, [with_loc("breakadd", Loc::Addr(0x3001), rng), with_loc("breakadd", Loc::Addr(0x3003), rng), with_loc("breakadd", Loc::Addr(0x3005), rng),
                       with_loc("breakremove", Loc::Addr(0x3001), rng), with_loc("breakadd", Loc::Addr(0x3003), rng), with_loc("breakremove", Loc::Addr(0x3003), rng),
                       simple("breaklist", rng), simple("continue", rng), simple("registers", rng), simple("continue", rng), simple("exit", rng)]);
    // reset leaves the breakpoint list alone: a removed .break stays removed, an added one stays
    sc!("breaks", true, [with_loc("breakremove", lab("mid", 0), rng), with_loc("breakadd", lab("skip", 0), rng), simple("reset", rng), simple("breaklist", rng),
                         simple("continue", rng), simple("continue", rng), simple("continue", rng), simple("continue", rng), simple("continue", rng), simple("exit", rng)]);
    sc!("breakloop", true, [simple("continue", rng), with_loc("breakremove", lab("top", 0), rng), with_loc("breakadd", lab("top", 1), rng), simple("reset", rng),
                            simple("continue", rng), simple("registers", rng), simple("continue", rng), simple("exit", rng)]);
    // only the condition code differs from the load state when reset comes
    sc!("brfirst", true, [eval(&add_i(0, 0, 0), true, None, rng), simple("registers", rng), simple("reset", rng), simple("registers", rng), simple("continue", rng),
                          simple("registers", rng), simple("exit", rng)]);
    sc!("brfirst", true, [stepinto(Some(2), rng), with_loc("goto", Loc::Addr(0x3000), rng), mov(Loc::Reg(5), 0, rng), simple("reset", rng), simple("continue", rng),
                          simple("registers", rng), simple("exit", rng)]);
    // a store to the last word of memory, then reset
    sc!("storetop", true, [simple("continue", rng), with_loc("print", Loc::Addr(0xFFFF), rng), simple("reset", rng), with_loc("print", Loc::Addr(0xFFFF), rng),
                           simple("registers", rng), simple("exit", rng)]);
    // a HALT that was not in the image: written by the user, then run into
    sc!("straight", true, [mov(Loc::Addr(0x3002), 0xF025, rng), simple("continue", rng), simple("registers", rng), simple("continue", rng), simple("step", rng), simple("exit", rng)]);
    sc!("halthigh", false, [simple("continue", rng), simple("registers", rng), simple("continue", rng), simple("step", rng), stepinto(Some(2), rng), simple("registers", rng)]);

    // a breakpoint on the second word: pause there, go elsewhere by reset / goto, come back - it must pause again
    sc!("breaksecond", true, [simple("continue", rng), simple("registers", rng), simple("reset", rng), simple("continue", rng), simple("registers", rng),
                              with_loc("goto", Loc::Addr(0x3000), rng), simple("continue", rng), simple("registers", rng), stepinto(Some(1), rng),
                              with_loc("goto", Loc::Addr(0x3000), rng), simple("continue", rng), simple("registers", rng), simple("exit", rng)]);
    // breakpoints the SOURCE put beyond the end of user space: listed, but not removable / addable / reachable by address, label or offset
    sc!("straddle", true, [simple("breaklist", rng), with_loc("breakremove", Loc::Addr(0xFE00), rng), with_loc("breakremove", Loc::Addr(0xFE01), rng), simple("breaklist", rng),
                           with_loc("breakremove", lab("hi", 0), rng), with_loc("breakremove", lab("last", 1), rng), with_loc("breakadd", Loc::Addr(0xFE02), rng),
                           with_loc("breakadd", lab("hi2", 0), rng), with_loc("breakremove", Loc::Addr(0xFDFF), rng), with_loc("breakadd", Loc::Addr(0xFDFF), rng),
                           with_loc("breakremove", Loc::Addr(0xFDFF), rng), simple("breaklist", rng), with_loc("goto", Loc::Addr(0xFE00), rng),
                           mov(Loc::Addr(0xFE00), 5, rng), with_loc("print", Loc::Addr(0xFE00), rng), simple("exit", rng)]);
    // eval of label-taking instructions whose label lies at and beyond the reach of the field (CALL: 10 bits, JSR: 11, the rest: 9)
    // (only forms that must be REFUSED are evaluated for CALL/JSR: what an accepted one writes as link value is left open by C15)
    sc!("fargap", true, [eval(&pc_lab("call", 0, "far600"), true, None, rng), simple("registers", rng), eval(&pc_lab("call", 0, "far1100"), true, None, rng), simple("registers", rng),
                         with_loc("goto", Loc::Addr(0x3000), rng), eval(&pc_lab("jsr", 0, "far1100"), true, None, rng), simple("registers", rng),
                         with_loc("goto", Loc::Addr(0x3000), rng), eval(&pc_lab("ld", 1, "far600"), true, None, rng), eval(&pc_lab("lea", 2, "near200"), true, None, rng),
                         eval(&pc_lab("st", 1, "near500"), true, None, rng), eval(&pc_lab("jsr", 0, "far1100"), true, None, rng), simple("registers", rng), simple("exit", rng)]);
    sc!("fargap", true, [with_loc("goto", lab("far1100", 0), rng), eval(&pc_lab("call", 0, "near500"), true, None, rng), simple("registers", rng),
                         with_loc("goto", lab("far1100", 0), rng), eval(&pc_lab("jsr", 0, "start_"), true, None, rng), simple("registers", rng),
                         with_loc("goto", lab("far1100", 0), rng), eval(&pc_lab("call", 0, "start_"), true, None, rng), eval(&pc_lab("sti", 3, "nolabel"), true, None, rng),
                         eval(&pc_lab("ldi", 3, "nolabel"), true, None, rng), simple("registers", rng), simple("exit", rng)]);
    // labels more than 32767 words behind the origin
    sc!("biggap", true, [with_loc("assembly", lab("far_", 0), rng), with_loc("assembly", lab("far_", 1), rng), with_loc("assembly", lab("tail_", -1), rng),
                         with_loc("print", lab("tail_", 0), rng), with_loc("goto", lab("far_", 0), rng), simple("registers", rng), with_loc("breakadd", lab("tail_", 0), rng),
                         simple("breaklist", rng), mov(lab("far_", 1), 7, rng), with_loc("print", lab("far_", 1), rng), simple("exit", rng)]);
    // eval of the extension's own jump: RETS pops the return address a real CALL pushed (nothing about it is left open) - the PC must go there
    sc!("callnest", true, [with_loc("breakadd", lab("g", 0), rng), simple("continue", rng), eval(&plain("rets"), true, None, rng), simple("registers", rng),
                           simple("continue", rng), simple("registers", rng), simple("continue", rng), simple("exit", rng)]);
    sc!("callnest", true, [stepinto(Some(3), rng), eval(&plain("rets"), true, None, rng), simple("registers", rng), stepinto(Some(2), rng), eval(&plain("rets"), true, None, rng),
                           simple("registers", rng), simple("exit", rng)]);
    // a store OUTSIDE [origin, xFE00) (below the origin; in the device page), after which the user puts registers and PC back by hand: when `reset` comes,
    // everything a quick look compares (PC, registers, CC, the image's own words) equals the load state - and the stored word must still go back
    sc!("stlow", true, [mov(Loc::Reg(0), 0x1234, rng), simple("step", rng), mov(Loc::Reg(0), 0, rng), with_loc("goto", Loc::Addr(0x3000), rng), simple("reset", rng),
                        with_loc("print", Loc::Addr(0x2FF7), rng), simple("registers", rng), simple("continue", rng), with_loc("print", Loc::Addr(0x2FF7), rng), simple("exit", rng)]);
    sc!("sthigh", true, [mov(Loc::Reg(1), 0x1234, rng), simple("step", rng), mov(Loc::Reg(1), 0, rng), with_loc("goto", Loc::Addr(0x3000), rng), simple("reset", rng),
                         with_loc("print", Loc::Addr(0xFE06), rng), simple("registers", rng), simple("continue", rng), with_loc("print", Loc::Addr(0xFE06), rng), simple("exit", rng)]);
    sc!("sthigh", true, [mov(Loc::Reg(1), 0x1234, rng), simple("continue", rng), simple("reset", rng), with_loc("print", Loc::Addr(0xFE06), rng), simple("reset", rng),
                         simple("continue", rng), with_loc("print", Loc::Addr(0xFE06), rng), simple("exit", rng)]);
    sc!("stlow", true, [mov(Loc::Reg(0), 0x4321, rng), simple("continue", rng), simple("reset", rng), with_loc("print", Loc::Addr(0x2FF7), rng), simple("exit", rng)]);
    let mut cat = catalogue();
    cat.push(p("stlow", false, b"", vec![pc_lit("st", 0, -10), halt()]));
    cat.push(p("sthigh", false, b"", vec![pc_lab("sti", 1, "ptr_"), halt(), fill(0xFE06).lab("ptr_")]));
    cat.push(p("biggap", false, b"", vec![halt().lab("start_"), blkw(33000), add_i(1, 1, 1).lab("far_"), add_i(2, 2, 2), halt().lab("tail_")]));
    cat.push(p("fargap", true, b"", vec![add_i(0, 0, 1).lab("start_"), halt(), blkw(198), add_i(1, 1, 1).lab("near200"), blkw(299), add_i(2, 2, 1).lab("near500"), blkw(99),
                                        add_i(3, 3, 1).lab("far600"), blkw(499), add_i(4, 4, 1).lab("far1100"), plain("rets")]));
    // programs used by scenarios only (they do not terminate on their own, or only make sense with their script)
    cat.push(p("selfcall", true, b"", vec![add_i(0, 0, 1), pc_lab("call", 0, "deeper").lab("deeper"), halt()]));
    cat.push(p("breaksecond", false, b"", vec![add_i(1, 1, 1), plain("break"), add_i(1, 1, 1), add_i(1, 1, 1), halt()]));
    cat.push(p("selfbr", false, b"", vec![and_i(0, 0, 0), br_lab(2, "spin").lab("spin"), halt()]));
    cat.push(p("brfirst", false, b"", vec![br_lab(2, "z"), add_i(5, 5, 1), add_i(5, 5, 2).lab("z"), halt()]));
    let mut out = Vec::new();
    for (i, (name, script, mutating)) in table.into_iter().enumerate() {
        let prog = cat.iter().find(|p| p.name == name).expect("scenario program");
        for wild in [false, true] {
            out.push(Session { id: format!("scn:{}:{}:{}", name, i, wild as u8), program: render_prog(rng, prog, wild), stack: prog.stack,
                               input: prog.input.clone(), script: Some(script.clone()), fuel: 1500, mayloop: mutating });
        }
    }
    out
}

/// C17: the debugger's view of source text and symbols, on arbitrary (never executed) programs.
fn sessions_view(rng: &mut Rng, n: usize) -> Vec<Session> {
    let mut out = Vec::new();
    let mut progs: Vec<Prog> = catalogue();
    for i in 0..n {
        let stack = rng.chance(1, 2);
        let ast = random_program(rng, stack);
        let labels = ast.iter().take_while(|i| i.k != "end").flat_map(|i| i.labs.clone()).collect();
        progs.push(Prog { name: format!("view{}", i), ast, stack, input: vec![], labels, mayloop: true });
    }
    for (pi, prog) in progs.iter().enumerate() {
        let o = orig_of(prog).rem_euclid(65536);
        let w: i64 = prog.ast.iter().take_while(|i| i.k != "end").map(|it| match it.k { "orig" | "break" | "end" => 0, "blkw" => it.c, "stringz" => it.s.len() as i64 + 1, _ => 1 }).sum();
        let mut script: Vec<Cmd> = Vec::new();
        let mut addrs: Vec<i64> = ((o - 1).max(0)..=(o + w + 1).min(65535)).collect();
        while addrs.len() > 70 {
            let k = rng.below(addrs.len() as u64) as usize;
            addrs.remove(k);
        }
        for a in addrs {
            script.push(with_loc("assembly", Loc::Addr(a), rng));
        }
        for l in prog.labels.iter().take(12) {
            script.push(with_loc("goto", Loc::Label(l.clone(), 0), rng));
            script.push(with_loc("assembly", Loc::None, rng));
            script.push(with_loc("print", Loc::Label(l.clone(), 1), rng));
            script.push(with_loc("assembly", Loc::Label(l.clone(), -1), rng));
            script.push(with_loc("breakadd", Loc::Label(l.clone(), 0), rng));
        }
        script.push(simple("breaklist", rng));
        script.push(simple("exit", rng));
        out.push(Session { id: format!("view:{}", prog.name), program: render_prog(rng, prog, pi % 4 != 0), stack: prog.stack,
                           input: vec![], script: Some(script), fuel: 50, mayloop: true });
    }
    out
}

/// Direction (B): behaviours printed by TLC from Gen_Debugger.tla, one JSON object per line
/// (program tree, flag, structured script); the sessions are run for real and compared by bin/check.
fn sessions_replay(rng: &mut Rng, path: &str) -> Vec<Session> {
    let mut out = Vec::new();
    for (i, line) in std::fs::read_to_string(path).expect("behaviour file").lines().enumerate() {
        let b: Value = serde_json::from_str(line).expect("behaviour json");
        let ast: Vec<Item> = b["ast"].as_array().unwrap().iter().map(Item::from_json).collect();
        let mut script = Vec::new();
        for c in b["script"].as_array().unwrap() {
            let n = c["n"].as_str().unwrap();
            let lv = c["lv"].as_i64().unwrap();
            let v = c["v"].as_i64().unwrap();
            let loc = match c["lt"].as_str().unwrap() {
                "reg" => format!("r{}", lv),
                "addr" => format!("x{:04x}", lv),
                "pcoff" => format!("^{}", lv),
                _ => String::new(),
            };
            let text = match n {
                "step" => "step".to_string(),
                "stepinto" => format!("step into {}", v),
                "stepout" => "step out".to_string(),
                "continue" => "continue".to_string(),
                "breakadd" => format!("break add {}", loc),
                "breakremove" => format!("break remove {}", loc),
                "breaklist" => "break list".to_string(),
                "print" => format!("print {}", loc),
                "goto" => format!("goto {}", loc),
                "reset" => "reset".to_string(),
                "move" => format!("move {} {}", loc, v),
                "exit" => "exit".to_string(),
                other => panic!("no text for command {other}"),
            };
            let mut cj = c.clone();
            cj["pure"] = json!(false);
            script.push(Cmd { text, c: cj });
        }
        let r = render(rng, &ast, &Layout { wild: false, comments: false });
        out.push(Session { id: format!("replay:{}", i), program: Program::Asm { src: r.src, ast, texts: r.texts }, stack: b["stack"].as_bool().unwrap(),
                           input: vec![], script: Some(script), fuel: 2000, mayloop: true });
    }
    out
}

fn sessions_debug(rng: &mut Rng, n: usize, per_prog: usize, focus: &str) -> Vec<Session> {
    let mut out = Vec::new();
    let mut progs = catalogue();
    for i in 0..n {
        progs.push(random_prog(rng, i));
    }
    for prog in &progs {
        let o = orig_of(prog);
        let w = words_of(prog);
        for k in 0..per_prog {
            let mutating = if focus == "mixed" { k % 2 == 1 } else { !matches!(focus, "pure" | "step") };
            let len = 1 + rng.below(if k % 3 == 0 { 6 } else { 25 }) as usize;
            let mut script: Vec<Cmd> = (0..len)
                .map(|_| if focus == "mixed" { random_cmd(rng, prog, o, w, mutating) } else { focused_cmd(rng, prog, o, w, focus) })
                .collect();
            match rng.below(4) {
                0 => script.push(simple("quit", rng)),
                1 if mutating => script.push(simple("exit", rng)),
                2 => script.push(simple("continue", rng)),
                _ => {} // end of input
            }
            out.push(Session { id: format!("dbg:{}:{}", prog.name, k), program: render_prog(rng, prog, k % 2 == 0), stack: prog.stack,
                               input: prog.input.clone(), script: Some(script), fuel: 1500, mayloop: mutating });
        }
    }
    out
}

pub fn main(args: &Args) {
    let mode = args.req("mode").to_string();
    let seed = args.num("seed", 1);
    let n = args.num("n", 20) as usize;
    let per = args.num("per", 4) as usize;
    let path = args.req("out").to_string();
    let mut rng = Rng::new(seed ^ 0x5e55);
    let sessions = match mode.as_str() {
        "run" => sessions_run(&mut rng, n),
        "tiny" => sessions_tiny(&mut rng, n, args.flag("exhaustive")),
        "debug" => sessions_debug(&mut rng, n, per, args.get("focus").unwrap_or("mixed")),
        "scenario" => {
            // --only <program>: just the scenarios of that program
            let only = args.get("only").map(|s| s.to_string());
            sessions_scenario(&mut rng).into_iter().filter(|s| only.as_ref().map(|o| s.id.split(':').nth(1) == Some(o.as_str())).unwrap_or(true)).collect()
        }
        "view" => sessions_view(&mut rng, n),
        "replay" => sessions_replay(&mut rng, args.req("in")),
        "enum" => sessions_enum(&mut rng, args.num("len", 2) as usize, args.num("stride", 1) as usize, args.num("phase", 0) as usize),
        other => panic!("unknown mode {other}"),
    };
    let mut out = Out::create(&path);
    let total = sessions.len();
    for sess in sessions {
        let events = run_session_watched(sess);
        for e in &events {
            out.emit(e);
        }
    }
    println!("\n{}", json!({"family": "run", "sessions": total, "events": out.finish()}));
}
