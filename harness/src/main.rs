mod asm;
mod gen_asm;
mod gen_cmd;
mod gen_edit;
mod gen_files;
mod gen_isa;
mod gen_lex;
mod gen_run;
mod prog;
mod session;
mod util;

fn main() {
    util::install_panic_hook();
    let argv: Vec<String> = std::env::args().collect();
    if argv.len() < 3 {
        eprintln!("usage: harness <gen|replay> <family> [--key value ...]");
        std::process::exit(2);
    }
    let args = util::Args(argv[3..].to_vec());
    match (argv[1].as_str(), argv[2].as_str()) {
        ("gen", "isa") => gen_isa::main(&args),
        ("replay", "isa") => gen_isa::replay(&args),
        ("gen", "asm") => gen_asm::main(&args),
        ("replay", "asm") => gen_asm::replay(&args),
        ("gen", "run") => gen_run::main(&args),
        ("gen", "cmd") => gen_cmd::main(&args),
        ("gen", "files") => gen_files::main(&args),
        ("gen", "edit") => gen_edit::main(&args),
        ("gen", "lex") => gen_lex::main(&args),
        (a, b) => {
            eprintln!("unknown command {a} {b}");
            std::process::exit(2);
        }
    }
}
