//! Source files for the command-line checks (C06, C07, C08, C18). The harness only writes the files
//! and a manifest with the syntax tree of each; bin/check runs the real `lace` binary on them.

use serde_json::json;

use crate::gen_asm::{mk_pc, pc_forms, random, verdict};
use crate::gen_run::{catalogue, random_prog};
use crate::prog::*;
use crate::util::*;

struct FileCase {
    tag: String,
    ast: Vec<Item>,
    /// the program is meant to be executed (terminates by construction)
    exec: bool,
    stack_hint: bool,
    input: Vec<u8>,
}

/// Make a program harmless to `lace run`: it halts at once.
fn guard(mut ast: Vec<Item>) -> Vec<Item> {
    let at = if ast.first().map(|i| i.k == "orig" && i.labs.is_empty()).unwrap_or(false) { 1 } else { 0 };
    ast.insert(at, plain("halt"));
    ast
}

fn far_label_cases(rng: &mut Rng, stack: bool) -> Vec<FileCase> {
    // the only error surfaces on emission: a label farther away than the field allows,
    // at every statement position, for every PC-relative instruction
    let mut out = Vec::new();
    for (k, bits) in pc_forms(stack) {
        let half = 1i64 << (bits - 1);
        for pos in 0..4usize {
            for (pad, tag) in [(half + 10, "far"), (half - 6, "near")] {
                let mut ast: Vec<Item> = (0..4).map(|_| add_r(rng.below(8) as i64, 0, 0)).collect();
                ast[pos] = mk_pc(k, rng, "target");
                ast.push(blkw(pad));
                ast.push(fill(7).lab("target"));
                out.push(FileCase { tag: format!("{}-{}-{}", tag, k, pos), ast: guard(ast), exec: false, stack_hint: stack, input: vec![] });
                // the same with the label BEFORE the padding: the failing statement comes late in the emission order
                let mut back: Vec<Item> = vec![fill(7).lab("target"), blkw(pad)];
                let mut tail: Vec<Item> = (0..4).map(|_| add_r(rng.below(8) as i64, 0, 0)).collect();
                tail[pos] = mk_pc(k, rng, "target");
                back.extend(tail);
                out.push(FileCase { tag: format!("{}-back-{}-{}", tag, k, pos), ast: guard(back), exec: false, stack_hint: stack, input: vec![] });
            }
        }
    }
    out
}

/// The SMALLEST programs around each field boundary (nothing before the first, nothing after the last statement involved),
/// and images that end just below / at / above the top of memory.
fn tight_cases(rng: &mut Rng, stack: bool) -> Vec<FileCase> {
    let mut out = Vec::new();
    for (k, bits) in pc_forms(stack) {
        let half = 1i64 << (bits - 1);
        for (pad, tag) in [(half - 2, "in"), (half - 1, "out")] {
            // backward: label on the first statement, reference on the last one; offset = -(pad + 2)
            let ast = vec![plain("halt").lab("target"), blkw(pad), mk_pc(k, rng, "target")];
            out.push(FileCase { tag: format!("tight-back-{}-{}", k, tag), ast, exec: false, stack_hint: stack, input: vec![] });
        }
        // two identical backward references in a row, the first at the very edge of the field, the second one past it
        let ast = vec![plain("halt").lab("target"), blkw(half - 2), mk_pc(k, rng, "target"), mk_pc(k, rng, "target")];
        let twin = ast[2].clone();
        let mut ast = ast;
        ast[3] = twin;
        out.push(FileCase { tag: format!("tight-back-twin-{}", k), ast, exec: false, stack_hint: stack, input: vec![] });
        for (pad, tag) in [(half - 1, "in"), (half, "out")] {
            // forward: reference on the first statement, label on the last one; offset = pad
            let ast = vec![mk_pc(k, rng, "target"), blkw(pad), plain("halt").lab("target")];
            out.push(FileCase { tag: format!("tight-fwd-{}-{}", k, tag), ast: guard(ast.clone()), exec: false, stack_hint: stack, input: vec![] });
            if k != "jsr" && k != "call" {
                out.push(FileCase { tag: format!("tight-fwd0-{}-{}", k, tag), ast, exec: false, stack_hint: stack, input: vec![] });
            }
        }
    }
    for (k, _bits) in pc_forms(stack).into_iter().take(3) {
        // the reference that is out of range sits beyond address xFFFF of an image that does not fit anyway
        out.push(FileCase { tag: format!("past-top-far-{}", k), ast: vec![orig(0xFFF8), plain("halt").lab("target"), blkw(300), mk_pc(k, rng, "target")], exec: false,
                            stack_hint: stack, input: vec![] });
        out.push(FileCase { tag: format!("past-top-near-{}", k), ast: vec![orig(0xFFF8), plain("halt").lab("target"), blkw(100), mk_pc(k, rng, "target")], exec: false,
                            stack_hint: stack, input: vec![] });
    }
    for (o, sizes) in [(0xFFF0i64, vec![13i64, 14, 15, 16, 17]), (0xFFFE, vec![0, 1, 2, 3]), (0xFFFF, vec![0, 1, 2]), (0xFDF0, vec![14, 15, 16, 17])] {
        for n in sizes {
            let mut ast = vec![orig(o), plain("halt")];
            if n > 0 {
                ast.push(blkw(n));
            }
            out.push(FileCase { tag: format!("top-{:x}-{}", o, n), ast, exec: false, stack_hint: stack, input: vec![] });
        }
    }
    out
}

fn gate_cases(rng: &mut Rng) -> Vec<FileCase> {
    let mut out = Vec::new();
    let mn = ["push", "pop", "call", "rets"];
    for (i, m) in mn.iter().enumerate() {
        // as an instruction, in any letter case
        for case in 0..3 {
            let word = match case { 0 => m.to_string(), 1 => m.to_uppercase(), _ => format!("{}{}", m[..1].to_uppercase(), &m[1..]) };
            let stmt = match *m { "push" | "pop" => format!("{} r1", word), "call" => format!("{} sub", word), _ => word.clone() };
            let raw = format!("halt\n{}\nsub add r0 r0 #1\nhalt\n", stmt);
            let mut it = plain("halt");
            it.raw = Some(raw);
            out.push(FileCase { tag: format!("uses-{}-{}", m, case), ast: vec![it], exec: false, stack_hint: true, input: vec![] });
        }
        // in label position, followed by a colon
        for (j, text) in [format!("halt\n{}: add r0 r0 #1\nhalt\n", m), format!("halt\n{}: halt\n", m.to_uppercase()), format!("{}:\nhalt\n", m)].iter().enumerate() {
            let mut it = plain("halt");
            it.raw = Some(text.clone());
            out.push(FileCase { tag: format!("label-colon-{}-{}", i, j), ast: vec![it], exec: false, stack_hint: true, input: vec![] });
        }
        // in label position
        let raw = format!("halt\n{} add r0 r0 #1\nhalt\n", m);
        let mut it = plain("halt");
        it.raw = Some(raw);
        out.push(FileCase { tag: format!("label-{}", i), ast: vec![it], exec: false, stack_hint: true, input: vec![] });
    }
    // the four mnemonics only AFTER .end (nothing after .end is part of the program), and labels named like a stack pointer
    for (j, text) in ["halt\n.end\npush r1\n", "halt\n.END\n  rets\n", "halt\n.end ; c\ncall nowhere\n", "halt\n.end\npop\n",
                      "ld r6 SP\nhalt\nSP .fill x3006\n", "lea r0 sp\nhalt\nsp .fill #1\n", "ld r1 fp\nld r2 Sp\nhalt\nfp .fill #1\nSp .fill #2\n",
                      "pusher halt\npopx add r0 r0 #1\nbr pusher\n"].iter().enumerate() {
        let mut it = plain("halt");
        it.raw = Some(text.to_string());
        out.push(FileCase { tag: format!("plain-raw-{}", j), ast: vec![it], exec: true, stack_hint: false, input: vec![] });
    }
    // programs that use none of the four mnemonics: image and behaviour must not depend on the flag
    for prog in catalogue().into_iter().filter(|p| !p.stack && !p.name.starts_with("rawd_off")) {
        out.push(FileCase { tag: format!("plain-{}", prog.name), ast: prog.ast, exec: true, stack_hint: false, input: prog.input });
    }
    for i in 0..6 {
        let prog = random_prog(rng, 100 + i);
        if !prog.stack {
            out.push(FileCase { tag: format!("plain-{}", prog.name), ast: prog.ast, exec: true, stack_hint: false, input: prog.input });
        }
    }
    out
}

pub fn main(args: &Args) {
    let fam = args.req("fam").to_string();
    let seed = args.num("seed", 1);
    let n = args.num("n", 20) as usize;
    let dir = args.req("dir").to_string();
    let path = args.req("out").to_string();
    let mut rng = Rng::new(seed ^ 0xF11E);
    std::fs::create_dir_all(&dir).unwrap();
    let mut cases: Vec<FileCase> = Vec::new();
    match fam.as_str() {
        "agree" => {
            for stack in [true, false] {
                for c in verdict(&mut rng, stack, 2).into_iter().step_by(if n >= 100 { 1 } else { 7 }) {
                    cases.push(FileCase { tag: "verdict".into(), ast: guard(c.ast), exec: false, stack_hint: stack, input: vec![] });
                }
                cases.extend(far_label_cases(&mut rng, stack));
                cases.extend(tight_cases(&mut rng, stack));
            }
            for prog in catalogue() {
                cases.push(FileCase { tag: format!("cat-{}", prog.name), ast: guard(prog.ast), exec: false, stack_hint: prog.stack, input: vec![] });
            }
        }
        "compile" => {
            for stack in [true, false] {
                for c in random(&mut rng, stack, n / 2) {
                    cases.push(FileCase { tag: "random".into(), ast: c.ast, exec: false, stack_hint: stack, input: vec![] });
                }
            }
            for prog in catalogue() {
                cases.push(FileCase { tag: format!("cat-{}", prog.name), ast: prog.ast, exec: false, stack_hint: prog.stack, input: vec![] });
            }
        }
        "exec" => {
            for prog in catalogue() {
                cases.push(FileCase { tag: format!("cat-{}", prog.name), ast: prog.ast, exec: true, stack_hint: prog.stack, input: prog.input });
            }
            for i in 0..n {
                let prog = random_prog(&mut rng, i);
                cases.push(FileCase { tag: prog.name.clone(), ast: prog.ast, exec: true, stack_hint: prog.stack, input: prog.input });
            }
        }
        "atomic" => {
            for stack in [true, false] {
                cases.extend(far_label_cases(&mut rng, stack));
            }
            for prog in catalogue().into_iter().take(6) {
                cases.push(FileCase { tag: format!("cat-{}", prog.name), ast: prog.ast, exec: false, stack_hint: prog.stack, input: vec![] });
            }
            for c in verdict(&mut rng, true, 0).into_iter().step_by(17) {
                cases.push(FileCase { tag: "verdict".into(), ast: c.ast, exec: false, stack_hint: true, input: vec![] });
            }
        }
        "gate" => cases = gate_cases(&mut rng),
        other => panic!("unknown family {other}"),
    }
    let mut out = Out::create(&path);
    for (i, c) in cases.iter().enumerate() {
        let r = render(&mut rng, &c.ast, &Layout { wild: i % 2 == 1, comments: i % 3 == 0 });
        let file = format!("{}/{}_{}.asm", dir, fam, i);
        std::fs::write(&file, &r.src).unwrap();
        let raw = c.ast.len() == 1 && c.ast[0].raw.is_some();
        out.emit(&json!({"id": i, "tag": c.tag, "path": file, "ast": if raw { json!([]) } else { ast_json(&c.ast) }, "raw": raw,
                         "exec": c.exec, "stack": c.stack_hint, "input": c.input, "src": r.src}));
    }
    println!("\n{}", json!({"family": "files", "cases": out.finish()}));
}
