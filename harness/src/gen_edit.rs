//! C20: key sequences through the real line editor (no TTY, no history file).

use lace::debugger::VerifTerminal;
use lace::verif::{self, Event, Key};
use serde_json::{json, Value};

use crate::util::*;

const CHARS: [char; 12] = ['a', 'b', 'é', 'Z', '9', ' ', '+', '😀', ';', '.', '✓', '\u{a0}'];
const NKEYS: usize = 9 + 12 + 2;

fn key_of(i: usize) -> (Key, Value) {
    match i {
        0 => (Key::Enter, json!({"k": "enter", "c": ""})),
        1 => (Key::Backspace, json!({"k": "backspace", "c": ""})),
        2 => (Key::Delete, json!({"k": "delete", "c": ""})),
        3 => (Key::Left, json!({"k": "left", "c": ""})),
        4 => (Key::Right, json!({"k": "right", "c": ""})),
        5 => (Key::CtrlLeft, json!({"k": "ctrlleft", "c": ""})),
        6 => (Key::CtrlRight, json!({"k": "ctrlright", "c": ""})),
        7 => (Key::Up, json!({"k": "up", "c": ""})),
        8 => (Key::Down, json!({"k": "down", "c": ""})),
        21 => (Key::Char('\t'), json!({"k": "char", "c": "\t"})),
        22 => (Key::Char('\u{7f}'), json!({"k": "char", "c": "\u{7f}"})),
        n => {
            let c = CHARS[n - 9];
            (Key::Char(c), json!({"k": "char", "c": c.to_string()}))
        }
    }
}

fn chars_json(s: &str) -> Value {
    json!(s.chars().map(|c| c.to_string()).collect::<Vec<_>>())
}

/// Feed `keys` to a fresh terminal with the given history; returns the trace events.
fn run_case(history: &[String], keys: &[usize]) -> Vec<Value> {
    let mut trace = vec![json!({"ev": "init", "hist": history.iter().map(|h| chars_json(h)).collect::<Vec<_>>()})];
    let mut term = VerifTerminal::verif_new(history.to_vec());
    let (ks, descr): (Vec<Key>, Vec<Value>) = keys.iter().map(|k| key_of(*k)).unzip();
    verif::arm(None, &[], false);
    verif::set_keys(ks);
    let mut reads: Vec<(usize, String)> = Vec::new(); // (number of key events seen before, command)
    case_begin(&format!("history {:?} keys {:?}", history, descr));
    let (_, ended) = guarded(|| loop {
        let cmd = term.verif_read().expect("terminal never reports EOF");
        let seen = verif::with_sink(|s| s.events.iter().filter(|(e, _)| matches!(e, Event::Key { .. })).count());
        reads.push((seen, cmd));
    });
    case_end();
    let events = verif::disarm();
    let mut ki = 0usize;
    let mut ri = 0usize;
    for (e, _) in &events {
        if let Event::Key { buffer, current, cursor, index, eol, .. } = e {
            while ri < reads.len() && reads[ri].0 <= ki {
                trace.push(json!({"ev": "read", "cmd": chars_json(&reads[ri].1)}));
                ri += 1;
            }
            trace.push(json!({"ev": "key", "key": descr[ki], "buffer": chars_json(buffer), "current": chars_json(current),
                              "cursor": cursor, "index": index, "eol": eol}));
            ki += 1;
        }
    }
    while ri < reads.len() {
        trace.push(json!({"ev": "read", "cmd": chars_json(&reads[ri].1)}));
        ri += 1;
    }
    let hist_after: Vec<Value> = term.verif_history().iter().map(|h| chars_json(h)).collect();
    trace.push(json!({"ev": "end", "kind": ended.kind(), "msg": ended.msg(), "history": hist_after, "keys_used": ki, "keys_given": keys.len()}));
    trace
}

pub fn main(args: &Args) {
    let mode = args.req("mode").to_string();
    let seed = args.num("seed", 1);
    let len = args.num("len", 3) as usize;
    let n = args.num("n", 200) as usize;
    let stride = args.num("stride", 1) as u64;
    let phase = args.num("phase", 0) as u64;
    let path = args.req("out").to_string();
    let mut rng = Rng::new(seed ^ 0xED17);
    let histories: Vec<Vec<String>> = vec![vec![], vec!["a é".to_string()], vec!["a+".to_string(), " 😀a;b".to_string()]];
    let mut out = Out::create(&path);
    let mut cases = 0u64;
    lace::set_minimal(true);
    match mode.as_str() {
        "enum" => {
            // every key sequence of exactly `len` keys after a seeded prefix that puts something on the line
            let prefixes: Vec<Vec<usize>> = vec![vec![], vec![9, 11, 14, 16, 9], vec![11, 15, 14, 11, 3, 3], vec![16, 16, 9, 17, 10, 5]];
            let total = (NKEYS as u64).pow(len as u32);
            let mut counter = 0u64;
            for h in &histories {
                for p in &prefixes {
                    for code in 0..total {
                        counter += 1;
                        if counter % stride != phase % stride {
                            continue;
                        }
                        let mut keys = p.clone();
                        let mut c = code;
                        for _ in 0..len {
                            keys.push((c % NKEYS as u64) as usize);
                            c /= NKEYS as u64;
                        }
                        for e in run_case(h, &keys) {
                            out.emit(&e);
                        }
                        cases += 1;
                    }
                }
            }
        }
        "random" => {
            for _ in 0..n {
                let h = rng.pick(&histories).clone();
                let l = 20 + rng.below(180) as usize;
                let keys: Vec<usize> = (0..l)
                    .map(|_| if rng.chance(1, 2) { 9 + rng.below(12) as usize } else { rng.below(NKEYS as u64) as usize })
                    .collect();
                for e in run_case(&h, &keys) {
                    out.emit(&e);
                }
                cases += 1;
            }
        }
        other => panic!("unknown mode {other}"),
    }
    println!("\n{}", json!({"family": "edit", "cases": cases, "events": out.finish()}));
}
