//! C01 / C04 (and the assembler side of C11, C17): syntax trees rendered to text, pushed through the
//! real assembler, logged with what came out. `Trace_Asm.tla` decides.

use serde_json::json;

use crate::asm::assemble;
use crate::prog::*;
use crate::util::*;

pub struct Case {
    pub fam: &'static str,
    pub ast: Vec<Item>,
}

fn filler(n: usize, rng: &mut Rng) -> Vec<Item> {
    (0..n).map(|_| add_r(rng.below(8) as i64, rng.below(8) as i64, rng.below(8) as i64)).collect()
}

fn wrap(it: Item, fam: &'static str, rng: &mut Rng) -> Case {
    // literal PC offsets are relative to the statement, so its position does not matter for the
    // encoding; vary it anyway so that the line counter is exercised
    let mut ast = filler(rng.below(4) as usize, rng);
    if rng.chance(1, 3) {
        let o = *rng.pick(&[0i64, 1, 0x2FFF, 0x3000, 0x7FFF, 0x8000, 0xFDFF, 0xFFFF]);
        ast.insert(rng.below(ast.len() as u64 + 1) as usize, orig(o));
    }
    ast.push(it);
    ast.extend(filler(rng.below(2) as usize, rng));
    Case { fam, ast }
}

/// Every instruction form x every register x every in-range value of every field.
fn fields(rng: &mut Rng, stack: bool, stride: usize, phase: usize) -> Vec<Case> {
    let mut items: Vec<Item> = Vec::new();
    for a in 0..8 {
        for b in 0..8 {
            for c in 0..8 {
                items.push(add_r(a, b, c));
                items.push(and_r(a, b, c));
            }
            for imm in -16..=15 {
                items.push(add_i(a, b, imm));
                items.push(and_i(a, b, imm));
            }
            items.push(not(a, b));
            for off in -32..=31 {
                items.push(base_off("ldr", a, b, off));
                items.push(base_off("str", a, b, off));
            }
        }
        for k in PC9 {
            for off in -256..=255 {
                items.push(pc_lit(k, a, off));
            }
        }
        items.push(reg1("jmp", a));
        items.push(reg1("jsrr", a));
        if stack {
            items.push(reg1("push", a));
            items.push(reg1("pop", a));
        }
    }
    for cond in 1..=7 {
        for off in -256..=255 {
            items.push(br_lit(cond, off));
        }
    }
    for off in -1024..=1023 {
        items.push(pc_lit("jsr", 0, off));
    }
    if stack {
        items.push(plain("rets"));
    }
    for v in 0..=255 {
        items.push(trap(v));
    }
    for k in TRAP_ALIASES {
        items.push(plain(k));
    }
    items.push(plain("ret"));
    items.push(plain("rti"));
    for v in [-32768i64, -32767, -256, -1, 0, 1, 255, 256, 32767, 32768, 65534, 65535] {
        items.push(fill(v));
    }
    for n in [0i64, 1, 2, 7, 300] {
        items.push(blkw(n));
    }
    for s in ["", "a", "Hello, world!", "t\tn\nr\rq\"b\\", "é✓", "semi;colon ; not a comment", "  spaces  "] {
        items.push(stringz(s));
    }
    for o in [0i64, 1, 0x2FFF, 0x3000, 0x7FFF, 0x8000, 0xFDFF, 0xFE00, 0xFFFF] {
        items.push(orig(o));
    }
    items
        .into_iter()
        .enumerate()
        .filter(|(i, _)| i % stride == phase % stride)
        .map(|(_, it)| {
            if it.k == "orig" {
                let mut ast = filler(2, rng);
                ast.insert(rng.below(3) as usize, it);
                Case { fam: "fields", ast }
            } else {
                wrap(it, "fields", rng)
            }
        })
        .collect()
}

pub fn pc_forms(stack: bool) -> Vec<(&'static str, i64)> {
    let mut v = vec![("br", 9), ("ld", 9), ("ldi", 9), ("lea", 9), ("st", 9), ("sti", 9), ("jsr", 11)];
    if stack {
        v.push(("call", 10));
    }
    v
}

pub fn mk_pc(k: &'static str, rng: &mut Rng, label: &str) -> Item {
    match k {
        "br" => br_lab(rng.range(1, 7), label),
        "jsr" | "call" => pc_lab(k, 0, label),
        _ => pc_lab(k, rng.below(8) as i64, label),
    }
}

/// A program in which statement `k` references a label at exactly `dist` = label line - own line - 1.
fn label_program(rng: &mut Rng, k: &'static str, dist: i64) -> Vec<Item> {
    let name = label_name(rng.below(100) as usize, rng);
    let stmt = mk_pc(k, rng, &name);
    let mut ast = filler(rng.below(3) as usize, rng);
    if rng.chance(1, 2) {
        ast.insert(0, orig(*rng.pick(&[0x3000i64, 0, 0x4000, 0xF000])));
    }
    if dist >= 0 {
        // forward: stmt, pad, label      label line = own line + 1 + pad
        ast.push(stmt);
        if dist > 0 {
            if rng.chance(1, 2) || dist > 40 {
                ast.push(blkw(dist));
            } else {
                ast.extend(filler(dist as usize, rng));
            }
        }
        ast.push(fill(0x1234).lab(&name));
    } else if dist == -1 {
        // label on the referencing statement itself
        ast.push(stmt.lab(&name));
    } else {
        // backward: label, pad, stmt     own line = label line + 1 + pad, dist = -(pad + 2)
        let pad = -dist - 2;
        ast.push(fill(0x4321).lab(&name));
        if pad > 0 {
            if rng.chance(1, 2) || pad > 40 {
                ast.push(blkw(pad));
            } else {
                ast.extend(filler(pad as usize, rng));
            }
        }
        ast.push(stmt);
    }
    ast.extend(filler(rng.below(2) as usize, rng));
    ast
}

fn labels(rng: &mut Rng, stack: bool, extra: usize) -> Vec<Case> {
    let mut out = Vec::new();
    for (k, bits) in pc_forms(stack) {
        let half = 1i64 << (bits - 1);
        let mut dists = vec![-half, -half + 1, -3, -2, -1, 0, 1, 2, half - 2, half - 1];
        for _ in 0..extra {
            dists.push(rng.range(-half, half - 1));
        }
        for d in dists {
            out.push(Case { fam: "labels", ast: label_program(rng, k, d) });
        }
    }
    out
}

/// C04: operands at and around each field boundary; label distances one beyond the field;
/// undefined / duplicate / case-differing labels; repeated `.orig`; structural errors.
pub fn verdict(rng: &mut Rng, stack: bool, extra: usize) -> Vec<Case> {
    let mut out = Vec::new();
    let edge = |bits: i64| -> Vec<i64> {
        let half = 1i64 << (bits - 1);
        vec![-half - 1, -half, -half + 1, -1, 0, 1, half - 1, half, half + 1, -32768, -32767, 32767, 32768,
             65535, 65536 - half, 65536 - half - 1, 65534]
    };
    let mut push = |it: Item, rng: &mut Rng| out.push(wrap(it, "verdict", rng));
    for v in edge(5) {
        push(add_i(rng.below(8) as i64, rng.below(8) as i64, v), rng);
        push(and_i(rng.below(8) as i64, rng.below(8) as i64, v), rng);
    }
    for v in edge(6) {
        push(base_off("ldr", rng.below(8) as i64, rng.below(8) as i64, v), rng);
        push(base_off("str", rng.below(8) as i64, rng.below(8) as i64, v), rng);
    }
    for v in edge(9) {
        push(br_lit(rng.range(1, 7), v), rng);
        for k in PC9 {
            push(pc_lit(k, rng.below(8) as i64, v), rng);
        }
    }
    for v in edge(11) {
        push(pc_lit("jsr", 0, v), rng);
    }
    for v in edge(10) {
        push(pc_lit("call", 0, v), rng);
    }
    for v in [-32768i64, -129, -1, 0, 1, 0x20, 0x7F, 0x80, 0xFE, 0xFF, 0x100, 0x101, 32767, 32768, 65535] {
        push(trap(v), rng);
    }
    for v in [-32768i64, -1, 0, 1, 32767, 32768, 65535] {
        push(fill(v), rng);
    }
    // literals no 16-bit reading admits at all (must be refused by the lexer, never wrapped)
    for v in [-32769i64, -40000, -65521, -65535, -65536, 65536, 70000, 131071] {
        push(fill(v), rng);
        push(add_i(1, 1, v), rng);
        push(base_off("ldr", 1, 2, v), rng);
        push(trap(v), rng);
        push(pc_lit("ld", 1, v), rng);
        push(orig(v), rng);
    }
    for v in [0i64, 1, 0x2FFF, 0x7FFF, 0x8000, 0x8001, 0xFDFF, 0xFE00, 0xFFFE, 0xFFFF] {
        let mut ast = filler(2, rng);
        ast.insert(rng.below(3) as usize, orig(v));
        out.push(Case { fam: "verdict", ast });
    }
    // stack mnemonics (accepted only with the feature)
    for it in [reg1("push", 3), reg1("pop", 4), plain("rets"), pc_lit("call", 0, 5)] {
        out.push(wrap(it, "verdict", rng));
    }
    // label distances at and one beyond the field
    for (k, bits) in pc_forms(true) {
        let half = 1i64 << (bits - 1);
        let mut dists = vec![-half - 2, -half - 1, -half, half - 1, half, half + 1];
        for _ in 0..extra {
            dists.push(rng.range(-half - 40, half + 40));
        }
        for d in dists {
            out.push(Case { fam: "verdict", ast: label_program(rng, k, d) });
        }
    }
    // the out-of-range reference at every statement position of a longer program
    for pos in 0..6usize {
        let mut ast = filler(6, rng);
        ast[pos] = pc_lab("ld", 1, "far");
        ast.push(blkw(300));
        ast.push(fill(1).lab("far"));
        out.push(Case { fam: "verdict", ast });
    }
    // label errors
    let undefined = vec![add_r(0, 0, 0), pc_lab("ld", 1, "nowhere"), plain("halt")];
    out.push(Case { fam: "verdict", ast: undefined });
    let case_differs = vec![pc_lab("lea", 0, "Msg"), plain("halt"), stringz("x").lab("msg")];
    out.push(Case { fam: "verdict", ast: case_differs });
    let case_ok = vec![pc_lab("lea", 0, "Msg"), plain("halt"), stringz("x").lab("msg"), fill(7).lab("Msg")];
    out.push(Case { fam: "verdict", ast: case_ok });
    let dup = vec![add_r(0, 0, 0).lab("twice"), plain("halt"), fill(1).lab("twice")];
    out.push(Case { fam: "verdict", ast: dup });
    let dup_far = vec![br_lab(7, "twice"), add_r(0, 0, 0).lab("twice"), blkw(3), plain("halt").lab("other"), fill(1).lab("twice")];
    out.push(Case { fam: "verdict", ast: dup_far });
    // repeated .orig
    for (i, j) in [(0usize, 1usize), (0, 3), (2, 3)] {
        let mut ast = filler(3, rng);
        ast.insert(j, orig(0x4000));
        ast.insert(i, orig(0x3000));
        out.push(Case { fam: "verdict", ast });
    }
    // a literal PC offset that points at the words just before the image: -(n), -(n+1), -(n+2) on statement n
    for n in 1..5i64 {
        for d in [-n, -(n + 1), -(n + 2)] {
            for k in ["br", "ld", "lea", "st", "jsr"] {
                let mut ast = filler((n - 1) as usize, rng);
                ast.push(if k == "br" { br_lit(7, d) } else { pc_lit(k, 1, d) });
                ast.push(plain("halt"));
                out.push(Case { fam: "verdict", ast });
            }
        }
    }
    // .orig repeated with the SAME value (each occurrence spelt independently) is still a second .orig
    for (i, j) in [(0usize, 1usize), (0, 2), (1, 3)] {
        for v in [0x3000i64, 0xFFFF, 0] {
            let mut ast = filler(3, rng);
            ast.insert(j, orig(v));
            ast.insert(i, orig(v));
            out.push(Case { fam: "verdict", ast });
        }
    }
    // a label defined twice is refused even when both definitions name the same address
    out.push(Case { fam: "verdict", ast: vec![plain("break").lab("twice"), add_r(1, 1, 1).lab("twice"), plain("halt")] });
    out.push(Case { fam: "verdict", ast: vec![orig(0x3000).lab("twice"), add_r(1, 1, 1).lab("twice"), plain("halt")] });
    out.push(Case { fam: "verdict", ast: vec![add_r(1, 1, 1), plain("break").lab("twice"), plain("break"), plain("halt").lab("twice")] });
    out.push(Case { fam: "verdict", ast: vec![add_r(1, 1, 1).lab("twice").lab("twice"), plain("halt")] });
    // two labels before one statement, a label at the very end, a label on .end
    out.push(Case { fam: "verdict", ast: vec![add_r(1, 1, 1).lab("one").lab("two"), plain("halt")] });
    out.push(Case { fam: "verdict", ast: vec![add_r(1, 1, 1), plain("halt"), plain("break").lab("dangling")] });
    out.push(Case { fam: "verdict", ast: vec![add_r(1, 1, 1), plain("end").lab("dangling")] });
    // labels separated by .break / .orig are fine
    out.push(Case { fam: "verdict", ast: vec![plain("break").lab("one"), add_r(1, 1, 1).lab("two"), br_lab(7, "one"), br_lab(7, "two")] });
    out.push(Case { fam: "verdict", ast: vec![orig(0x5000).lab("one"), add_r(1, 1, 1).lab("two"), br_lab(7, "one"), br_lab(7, "two")] });
    let _ = stack;
    out
}

/// .blkw with counts around and above 2^15 (a decimal count >= 32768 is a negative i16 inside the lexer):
/// the canonical layout writes the count in decimal, the other layouts in a seeded spelling.
fn bigblk(rng: &mut Rng) -> Vec<Case> {
    let mut out = Vec::new();
    for n in [4097i64, 32767, 32768, 32769, 40000, 50000] {
        let mut ast = vec![add_r(1, 2, 3), blkw(n), fill(0x1234).lab("after"), plain("halt")];
        if rng.chance(1, 2) {
            ast.insert(0, orig(rng.range(0, 0x2000)));
        }
        out.push(Case { fam: "bigblk", ast });
    }
    out.push(Case { fam: "bigblk", ast: vec![blkw(20000), fill(1), blkw(32768), fill(2).lab("end_")] });
    out
}

/// .stringz with EVERY content of up to 3 characters over characters that matter to escaping.
fn strings(rng: &mut Rng) -> Vec<Case> {
    const CH: [u32; 9] = [97, 92, 34, 110, 116, 114, 10, 9, 0xE9];
    let mut out = Vec::new();
    let mut all: Vec<Vec<u32>> = vec![vec![]];
    let mut frontier: Vec<Vec<u32>> = vec![vec![]];
    for _ in 0..3 {
        let mut next = Vec::new();
        for f in &frontier {
            for c in CH {
                let mut g = f.clone();
                g.push(c);
                next.push(g);
            }
        }
        all.extend(next.iter().cloned());
        frontier = next;
    }
    for content in all {
        let mut it = stringz("");
        it.s = content;
        let mut ast = filler(rng.below(2) as usize, rng);
        ast.push(pc_lab("lea", 0, "txt"));
        ast.push(it.lab("txt"));
        ast.push(fill(0xBEEF));
        out.push(Case { fam: "strings", ast });
    }
    out
}

pub fn random(rng: &mut Rng, stack: bool, n: usize) -> Vec<Case> {
    (0..n).map(|_| Case { fam: "random", ast: random_program(rng, stack) }).collect()
}

/// C19: sequences of sources assembled one after the other on ONE thread with the documented
/// state reset in between; every result is logged next to the result of a fresh-thread assembly.
fn session_main(args: &Args) {
    let stack = args.num("stack", 1) != 0;
    let seed = args.num("seed", 1);
    let n = args.num("n", 30) as usize;
    let path = args.req("out").to_string();
    let summary = on_fresh_thread(move || {
        lace::features::init(if stack { "stack".parse().unwrap() } else { "".parse().unwrap() });
        let mut rng = Rng::new(seed ^ 0x5E55);
        let mut out = Out::create(&path);
        let mut id = 0u64;
        for _ in 0..n {
            let names: Vec<String> = (0..3).map(|i| label_name(i, &mut rng)).collect();
            let len = 3 + rng.below(5) as usize;
            let mut seq: Vec<(Vec<Item>, Option<String>)> = Vec::new();
            for _ in 0..len {
                let a = &names[0];
                let b = &names[1];
                let c = &names[2];
                // filler statements move the labels to different lines in every source
                let pad = |rng: &mut Rng| filler(rng.below(4) as usize, rng);
                let mut item = match rng.below(20) {
                    // free form: any subset of the shared names defined at random lines, references to any of them from random
                    // lines - backward, forward, to itself, or to a name this source does not define
                    12..=19 => {
                        let k = 2 + rng.below(6) as usize;
                        let mut v: Vec<Item> = (0..k).map(|_| add_i(rng.below(8) as i64, 0, 1)).collect();
                        let with_orig = rng.chance(1, 4);
                        // the pool also holds spellings that differ from a shared name only in letter case (they are other labels)
                        let mut pool: Vec<String> = names.clone();
                        pool.push(names[0].to_uppercase());
                        pool.push(names[0].to_lowercase());
                        pool.push(names[1].to_uppercase());
                        for _ in 0..1 + rng.below(3) {
                            let at = rng.below(k as u64) as usize;
                            let name = rng.pick(&pool).clone();
                            let labs = v[at].labs.clone();
                            let mut it = match rng.below(4) {
                                0 => pc_lab("ld", rng.below(8) as i64, &name),
                                1 => pc_lab("lea", rng.below(8) as i64, &name),
                                2 => br_lab(rng.range(1, 7), &name),
                                _ => pc_lab("jsr", 0, &name),
                            };
                            it.labs = labs;
                            v[at] = it;
                        }
                        for name in pool.iter() {
                            if rng.chance(1, 2) {
                                let at = rng.below(k as u64) as usize;
                                if v[at].labs.is_empty() && !v.iter().any(|it| it.labs.contains(name)) {
                                    v[at].labs.push(name.clone());
                                }
                            }
                        }
                        if with_orig {
                            v.insert(0, orig(*rng.pick(&[0x4000i64, 0x3000, 0xFE00])));
                        }
                        (v, None)
                    }
                    // many labels (a table that has grown)
                    9 if rng.chance(1, 2) => {
                        // fails only when words are emitted (label too far), with and without a non-default origin before it
                        let mut v = Vec::new();
                        if rng.chance(1, 2) {
                            v.push(orig(*rng.pick(&[0x4000i64, 0x0, 0xF000])));
                        }
                        v.push(pc_lab("ld", 0, c).lab(a));
                        v.push(blkw(300));
                        v.push(fill(1).lab(c));
                        (v, None)
                    }
                    9 => {
                        let mut v = Vec::new();
                        for k in 0..60 {
                            v.push(add_i(0, 0, 1).lab(&format!("many_{}", k)));
                        }
                        v.push(br_lab(7, c));
                        v.push(plain("halt").lab(c));
                        (v, None)
                    }
                    // a stack mnemonic: fails in the lexer when the extension is off
                    10 => (vec![reg1("push", 1).lab(a), plain("halt")], None),
                    // starts with an operand-less mnemonic, references labels only others define
                    11 => (vec![plain("getc"), plain("out"), br_lab(7, "many_3"), plain("halt")], None),
                    // valid, defines a b, forward reference to b
                    0 | 1 => {
                        let mut v = vec![pc_lab("ld", 1, b).lab(a), add_i(1, 1, 1)];
                        v.extend(pad(&mut rng));
                        v.push(fill(7).lab(b));
                        v.push(plain("halt"));
                        (v, None)
                    }
                    // valid, same labels in another order, forward references to a and c
                    2 => {
                        let mut v = vec![fill(1).lab(b), br_lab(7, a)];
                        v.extend(pad(&mut rng));
                        v.push(plain("halt").lab(a));
                        v.push(pc_lab("lea", 0, c));
                        v.extend(pad(&mut rng));
                        v.push(stringz("q").lab(c));
                        (v, None)
                    }
                    // fails in the lexer
                    3 => (vec![add_i(0, 0, 1).lab(a)], Some(format!("{} add r0 r0 #1\n{} .stringz \"unterminated\nhalt\n", a, b))),
                    4 => (vec![add_i(0, 0, 1).lab(a)], Some(format!("{} add r0 r0 #1\n.bogus\n{} halt #99999\n", a, b))),
                    // fails after some labels were recorded: duplicate label / undefined reference / parse error at the end
                    5 => (vec![add_i(0, 0, 1).lab(a), fill(2).lab(b), plain("halt").lab(a)], None),
                    6 => (vec![add_i(0, 0, 1).lab(a), pc_lab("ld", 2, "nowhere_"), fill(2).lab(b)], None),
                    // references (forward) a label that only OTHER sources of the sequence define
                    7 => (vec![br_lab(7, b), pc_lab("ld", 3, c), plain("halt").lab(a)], None),
                    _ => (vec![add_i(0, 0, 1).lab(a), fill(2).lab(b), add_i(1, 1, 99).lab(c)], None),
                };
                if item.1.is_none() && rng.chance(1, 2) {
                    let mut v = pad(&mut rng);
                    v.extend(item.0);
                    item.0 = v;
                }
                seq.push(item);
            }
            // the sequence, then the same sequence again (repetition gives the same result every time)
            let twice: Vec<_> = seq.iter().cloned().chain(seq.iter().cloned()).collect();
            for (ast, raw) in twice {
                let src = match &raw {
                    Some(text) => text.clone(),
                    None => render(&mut rng, &ast, &Layout { wild: false, comments: false }).src,
                };
                let here = assemble(&src, true);
                let src2 = src.clone();
                let fresh = on_fresh_thread(move || {
                    lace::features::init(if stack { "stack".parse().unwrap() } else { "".parse().unwrap() });
                    assemble(&src2, true)
                });
                let mut ev = here.to_json();
                ev["ev"] = json!("asm");
                ev["id"] = json!(id);
                ev["fam"] = json!("session");
                ev["stack"] = json!(stack);
                ev["ast"] = ast_json(&ast);
                ev["src"] = json!(src);
                ev["lexfail"] = json!(raw.is_some());
                ev["diag"] = json!(here.diag);
                ev["fres"] = json!(fresh.res);
                ev["fwords"] = json!(fresh.words);
                ev["forig"] = json!(fresh.orig);
                ev["fdiag"] = json!(fresh.diag);
                out.emit(&ev);
                id += 1;
            }
        }
        json!({"family": "asm", "events": out.finish(), "cases": n, "layout_mismatch": 0})
    });
    println!("\n{}", summary);
}

const TOK_KINDS: [(&str, &str); 22] = [
    ("LABEL", "foo"), ("ADD", "add"), ("NOT", "not"), ("BR", "brnz"), ("JMP", "jmp"), ("JSR", "jsr"), ("LD", "ld"), ("LDR", "ldr"), ("CALL", "call"),
    ("RET", "ret"), ("TRAPG", "trap"), ("HALT", "halt"), ("DEC", "#1"), ("HEX", "x2"), ("STR", "\"s\""), ("REG", "r1"), ("ORIG", ".orig"), ("FILL", ".fill"),
    ("BLKW", ".blkw"), ("STRINGZ", ".stringz"), ("BREAK", ".break"), ("END", ".end"),
];

fn emit_total(out: &mut Out, ev: &str, src: &str, toks: Option<Vec<&str>>, id: u64) {
    let res = assemble(src, true);
    let mut e = json!({"ev": ev, "id": id, "src": src, "res": res.res, "stage": res.stage, "msg": res.msg, "code": res.code,
                       "diag_ok": res.diag_ok, "spans_ok": res.spans_ok});
    if let Some(t) = toks {
        e["toks"] = json!(t);
    }
    out.emit(&e);
}

/// C05: texts for which only totality (and, for token-kind sequences, the verdict) is claimed.
fn total_main(args: &Args) {
    let mode = args.req("fam").to_string();
    let seed = args.num("seed", 1);
    let len = args.num("len", 3) as usize;
    let n = args.num("n", 1000) as usize;
    let stride = args.num("stride", 1) as u64;
    let phase = args.num("phase", 0) as u64;
    let path = args.req("out").to_string();
    let summary = on_fresh_thread(move || {
        lace::features::init("stack".parse().unwrap());
        let mut rng = Rng::new(seed ^ 0x707A1);
        let mut out = Out::create(&path);
        let mut id = 0u64;
        match mode.as_str() {
            // every sequence of token kinds up to `len`
            "tokens" => {
                let k = TOK_KINDS.len() as u64;
                let mut counter = 0u64;
                for l in 0..=len {
                    for code in 0..k.pow(l as u32) {
                        counter += 1;
                        if counter % stride != phase % stride {
                            continue;
                        }
                        let mut c = code;
                        let mut kinds = Vec::new();
                        let mut text = String::new();
                        for _ in 0..l {
                            let (kind, t) = TOK_KINDS[(c % k) as usize];
                            c /= k;
                            kinds.push(kind);
                            text.push_str(t);
                            text.push_str(*rng.pick(&[" ", " ", "\n", ", ", "\t"]));
                        }
                        emit_total(&mut out, "tok", &text, Some(kinds), id);
                        id += 1;
                    }
                }
            }
            // every string up to `len` over representatives of the lexer's character classes
            "chars" => {
                const CH: [&str; 18] = ["a", "x", "r", "0", "7", "#", "-", ".", "\"", "\\", ";", " ", ",", ":", "\n", "é", "😀", "$"];
                let k = CH.len() as u64;
                let mut counter = 0u64;
                for l in 0..=len {
                    for code in 0..k.pow(l as u32) {
                        counter += 1;
                        if counter % stride != phase % stride {
                            continue;
                        }
                        let mut c = code;
                        let mut text = String::new();
                        for _ in 0..l {
                            text.push_str(CH[(c % k) as usize]);
                            c /= k;
                        }
                        emit_total(&mut out, "total", &text, None, id);
                        id += 1;
                    }
                }
            }
            // mutations of grammar-derived programs
            "mutate" => {
                const JUNK: [&str; 36] = ["10000000000", "99999999999999999999", "4294967296", "b101", "é", "😀", "\"", "\\", ";", "#", "x", "0x", ".", ".fill", ".blkw", ".stringz", ".break", ".end", ".orig", "#99999", "xFFFFF",
                                           "r8", "R0", ":", ",", "\n", "\u{0}", "#-", "65536", "100000", "0000090210", "12", "-5", "+7", "0", "\r\n"];
                for _ in 0..n {
                    let ast = random_program(&mut rng, true);
                    let wild = rng.chance(1, 2);
                    let src = render(&mut rng, &ast, &Layout { wild, comments: true }).src;
                    let mut toks: Vec<String> = src.split(' ').map(|s| s.to_string()).collect();
                    for _ in 0..1 + rng.below(3) {
                        if toks.is_empty() {
                            break;
                        }
                        let i = rng.below(toks.len() as u64) as usize;
                        match rng.below(5) {
                            0 => {
                                toks.remove(i);
                            }
                            1 => {
                                let t = toks[i].clone();
                                toks.insert(i, t);
                            }
                            2 => {
                                let j = rng.below(toks.len() as u64) as usize;
                                toks.swap(i, j);
                            }
                            3 => toks[i] = rng.pick(&JUNK).to_string(),
                            _ => toks.insert(i, rng.pick(&JUNK).to_string()),
                        }
                    }
                    let mut text = toks.join(" ");
                    // byte-level mutation, kept valid UTF-8 by working on characters
                    if rng.chance(1, 2) && !text.is_empty() {
                        let mut cs: Vec<char> = text.chars().collect();
                        for _ in 0..1 + rng.below(4) {
                            let i = rng.below(cs.len() as u64) as usize;
                            match rng.below(3) {
                                0 => {
                                    cs.remove(i);
                                    if cs.is_empty() {
                                        break;
                                    }
                                }
                                1 => cs.insert(i, *rng.pick(&['é', '"', ';', '\\', '\n', 'x', '#', '.', '😀', ' '])),
                                _ => cs[i] = char::from_u32(0x20 + rng.below(0x60) as u32).unwrap(),
                            }
                        }
                        text = cs.into_iter().collect();
                    }
                    emit_total(&mut out, "total", &text, None, id);
                    id += 1;
                }
            }
            // .stringz with every content (raw, between the quotes) up to `len` characters
            "rawstrings" => {
                const CH: [&str; 7] = ["a", "\\", "\"", "n", "é", "😀", " "];
                let k = CH.len() as u64;
                for l in 0..=len {
                    for code in 0..k.pow(l as u32) {
                        let mut c = code;
                        let mut body = String::new();
                        for _ in 0..l {
                            body.push_str(CH[(c % k) as usize]);
                            c /= k;
                        }
                        emit_total(&mut out, "total", &format!("lea r0 s\ns .stringz \"{}\"\nhalt\n", body), None, id);
                        id += 1;
                    }
                }
            }
            // size extremes
            "huge" => {
                let mut texts: Vec<String> = Vec::new();
                texts.push(".blkw xFFFF\n".repeat(2));
                texts.push(".blkw xFFFF\nhalt\n".to_string());
                texts.push("br far\n.blkw x8000\nfar halt\n".to_string());
                texts.push("far halt\n.blkw x8000\nbr far\n".to_string());
                texts.push("ld r0 far\n.blkw x7FFF\nfar halt\n".to_string());
                texts.push("jsr far\n.blkw xFFF0\nfar halt\n".to_string());
                texts.push("far halt\n.blkw xFFF0\ncall far\n".to_string());
                texts.push("add r0 r0 r0\n".repeat(70_000));
                for d in [0x7FFCu32, 0x7FFD, 0x7FFE, 0x7FFF, 0x8000, 0x8001, 0x8002, 0xFFFC, 0xFFFD] {
                    texts.push(format!("lea r0 far\n.blkw x{:X}\nfar halt\n", d));
                    texts.push(format!("near halt\n.blkw x{:X}\nlea r0 near\n", d));
                    texts.push(format!("jsr far\n.blkw x{:X}\nfar halt\n", d));
                }
                texts.push(format!("{}br top\n", "top add r0 r0 r0\n".to_string() + &"add r1 r1 r1\n".repeat(65_534)));
                texts.push(format!(".stringz \"{}\"\n", "a".repeat(70_000)));
                for n in [0xFFFCu32, 0xFFFD, 0xFFFE, 0xFFFF] {
                    for tail in ["br #1", "ld r0 #-1", "lea r1 x10", "jsr #0", "st r2 #5", "br top", ".fill #1", "halt", "add r0 r0 r0\nbr #-1"] {
                        texts.push(format!("top .blkw x{:X}\n{}\n", n, tail));
                        texts.push(format!("top .blkw x8000\n.blkw x{:X}\n{}\n", n - 0x8000, tail));
                    }
                }
                // the line counter around 2^15 followed by PC-relative instructions with literal offsets of either sign
                for n in [0x7FFAu32, 0x7FFB, 0x7FFC, 0x7FFD, 0x7FFE, 0x7FFF, 0x8000, 0x8001, 0x8002] {
                    for tail in ["ld r0 #2", "ld r0 #-2", "br #255", "lea r1 #-256", "jsr #1023", "jsr #-1024", "st r2 #3\nld r0 #-3", "br #0"] {
                        texts.push(format!("top .blkw x{:X}\n{}\n", n, tail));
                    }
                }
                for t in ["add r1 r1 10000000000", "l1 99999999999999999999 halt", "4294967296 add r0 r0 r0", "add r0 r0 4294967295", ".fill 10000000000", "10000000000"] {
                    texts.push(format!("{}\n", t));
                }
                // numbers written without # or x (they lex as labels) wherever a number or label is expected
                for t in [".blkw 100000", ".fill 65536", ".FILL 0000090210", ".fill 12", ".blkw 3\nhalt", "add r0 r0 5", "br 3", "ld r0 70000", ".orig 12288", ".stringz 5",
                          "trap 37", "ldr r0 r1 99999", ".fill -5", ".blkw +7", "jsr 4294967296", ".fill 18446744073709551616"] {
                    texts.push(format!("{}\n", t));
                }
                texts.push(".blkw #-1\nhalt\n".to_string());
                texts.push(".blkw #-32768\n.blkw #-32768\nhalt\n".to_string());
                texts.push(format!(".orig xFFFF\n{}", "halt\n".repeat(10)));
                for t in texts {
                    emit_total(&mut out, "total", &t, None, id);
                    id += 1;
                }
            }
            other => panic!("unknown totality family {other}"),
        }
        json!({"family": "asm", "events": out.finish(), "cases": id, "layout_mismatch": 0})
    });
    println!("\n{}", summary);
}

pub fn main(args: &Args) {
    if args.req("fam") == "session" {
        return session_main(args);
    }
    if ["tokens", "chars", "mutate", "huge", "rawstrings"].contains(&args.req("fam")) {
        return total_main(args);
    }
    let fam = args.req("fam").to_string();
    let seed = args.num("seed", 1);
    let stack = args.num("stack", 1) != 0;
    let n = args.num("n", 100) as usize;
    let stride = args.num("stride", 1) as usize;
    let phase = args.num("phase", 0) as usize;
    let layouts = args.num("layouts", 1) as usize;
    let path = args.req("out").to_string();

    let summary = on_fresh_thread(move || {
        lace::features::init(if stack { "stack".parse().unwrap() } else { "".parse().unwrap() });
        let mut rng = Rng::new(seed ^ 0xA5A5 ^ (phase as u64) << 32);
        let cases = match fam.as_str() {
            "fields" => fields(&mut rng, stack, stride, phase),
            "labels" => labels(&mut rng, stack, n),
            "verdict" => verdict(&mut rng, stack, n),
            "random" => random(&mut rng, stack, n),
            "strings" => strings(&mut rng),
            "bigblk" => bigblk(&mut rng),
            other => panic!("unknown family {other}"),
        };
        let mut out = Out::create(&path);
        let mut id = 0u64;
        let mut layout_mismatch = 0u64;
        for case in &cases {
            let mut first: Option<(String, Vec<u16>, i64)> = None;
            for li in 0..layouts.max(1) {
                let lay = Layout { wild: li > 0 || layouts == 1, comments: li != 1 };
                let r = render(&mut rng, &case.ast, &lay);
                let res = assemble(&r.src, false);
                // re-laying out the text never changes the image (C01): compared by TLC too, since
                // every layout is validated against the same tree; counted here for the evidence
                if let Some((_, w, o)) = &first {
                    if res.res == "ok" && (*w != res.words || *o != res.orig) {
                        layout_mismatch += 1;
                    }
                } else if res.res == "ok" {
                    first = Some((r.src.clone(), res.words.clone(), res.orig));
                }
                let mut ev = res.to_json();
                ev["ev"] = json!("asm");
                ev["id"] = json!(id);
                ev["fam"] = json!(case.fam);
                ev["stack"] = json!(stack);
                ev["ast"] = ast_json(&case.ast);
                ev["src"] = json!(r.src);
                out.emit(&ev);
                id += 1;
            }
        }
        json!({"family": "asm", "events": out.finish(), "cases": cases.len(), "layout_mismatch": layout_mismatch})
    });
    println!("\n{}", summary);
}

/// Re-run the cases of a replay file (`asm` events: the recorded `src` is assembled again).
pub fn replay(args: &Args) {
    let events: Vec<serde_json::Value> =
        serde_json::from_str(&std::fs::read_to_string(args.req("case")).unwrap()).unwrap();
    let path = args.req("out").to_string();
    let stack = events.first().map(|e| e["stack"].as_bool().unwrap()).unwrap_or(true);
    let lines = on_fresh_thread(move || {
        lace::features::init(if stack { "stack".parse().unwrap() } else { "".parse().unwrap() });
        let mut out = Out::create(&path);
        for e in &events {
            let res = assemble(e["src"].as_str().unwrap(), false);
            let mut ev = res.to_json();
            for k in ["ev", "id", "fam", "stack", "ast", "src"] {
                ev[k] = e[k].clone();
            }
            out.emit(&ev);
        }
        out.finish()
    });
    println!("\n{}", json!({"family": "asm", "events": lines}));
}
