//! C14: command lines whose meaning is decided by CmdLang.tla, observed through their effect on a
//! real debugger session (`move r1 T` reveals an integer parse, `goto T` a memory location,
//! `print T` a register-or-memory location, names/aliases by what they do).

use serde_json::json;

use crate::prog::*;
use crate::session::*;
use crate::util::*;

const ALPHABET: [&str; 16] = ["+", "-", "#", "x", "o", "b", "0", "1", "7", "9", "a", "f", "g", "^", "r", "_"];

fn probe_program() -> (Vec<Item>, Vec<String>) {
    // origin 0: almost every address is user space, so `goto` reveals the parsed address
    let ast = vec![
        orig(0), halt_lab("L0"), add_i(0, 0, 1), blkw(300).lab("Foo"), fill(1).lab("bar"), fill(2).lab("_x"), fill(3).lab("b"), fill(4).lab("a"),
        fill(5).lab("x1g"), fill(6).lab("a7"), fill(7).lab("f"), fill(8).lab("g"), fill(9).lab("o"), fill(10).lab("ba"), plain("halt").lab("r_"),
    ];
    let labels = ast.iter().flat_map(|i| i.labs.clone()).collect();
    (ast, labels)
}
fn halt_lab(l: &str) -> Item {
    plain("halt").lab(l)
}

fn line_cmd(text: String) -> Cmd {
    let chars: Vec<String> = text.trim().chars().map(|c| c.to_string()).collect();
    Cmd { text, c: json!({"n": "probe", "pure": false, "chars": chars}) }
}

fn strings_upto(len: usize) -> Vec<String> {
    let mut all = vec![String::new()];
    let mut frontier = vec![String::new()];
    for _ in 0..len {
        let mut next = Vec::new();
        for s in &frontier {
            for a in ALPHABET {
                next.push(format!("{}{}", s, a));
            }
        }
        all.extend(next.iter().cloned());
        frontier = next;
    }
    all.retain(|s| !s.is_empty());
    all
}

fn mk_sessions(lines: Vec<String>, per: usize, tag: &str, rng: &mut Rng) -> Vec<Session> {
    let (ast, _) = probe_program();
    let r = render(rng, &ast, &Layout { wild: false, comments: false });
    let mut out = Vec::new();
    for (i, chunk) in lines.chunks(per).enumerate() {
        let mut script: Vec<Cmd> = Vec::new();
        // distinct register contents so that `print rN` identifies the register
        for k in 0..8 {
            script.push(line_cmd(format!("move r{} x{:x}", k, 0x1110 + k)));
        }
        script.push(line_cmd("goto x100".to_string()));
        for l in chunk {
            script.push(line_cmd(l.clone()));
        }
        script.push(line_cmd("exit".to_string()));
        out.push(Session { id: format!("cmd:{}:{}", tag, i), program: Program::Asm { src: r.src.clone(), ast: ast.clone(), texts: r.texts.clone() },
                           stack: false, input: vec![], script: Some(script), fuel: 50, mayloop: true });
    }
    out
}

fn recase(rng: &mut Rng, w: &str, mode: usize) -> String {
    match mode {
        0 => w.to_string(),
        1 => w.to_uppercase(),
        _ => w.chars().map(|c| if rng.chance(1, 2) { c.to_ascii_uppercase() } else { c }).collect(),
    }
}

fn name_lines(rng: &mut Rng) -> Vec<String> {
    // every command name, alias and listed misspelling (src/debugger/command/parse/name.rs), in three letter cases,
    // alone and with plausible arguments
    const NAMES: [&str; 132] = [
        "h", "help", "--help", "-h", ":h", "man", "info", "wtf", "c", "continue", "cont", "con", "proceed", "p", "print", "get", "show", "display", "put", "puts", "out",
        "m", "move", "set", "mov", "mv", "assign", "r", "registers", "reg", "dump", "register", "regs", "g", "goto", "jump", "call", "go", "go-to", "jsr", "jsrr",
        "brn", "brz", "brp", "brnz", "brnp", "brzp", "brnzp", "a", "assembly", "asm", "source", "src", "ass", "inspect", "e", "eval", "evil", "evaluate", "run", "exec",
        "execute", "sim", "simulate", "instruction", "instr", "z", "reset", "restart", "refresh", "reboot", "echo", "q", "x", ":q", ":wq", "^C", "halt", "end", "stop",
        "next", "step-over", "stepover", "si", "stepinto", "into", "in", "stepin", "step-into", "step-in", "stepi", "step-i", "sin", "so", "stepout", "finish", "fin",
        "step-out", "stepo", "step-o", "sout", "bl", "breaklist", "break-list", "break-ls", "blist", "bls", "bp", "breakpoint", "breakpointlist", "breakpoint-list",
        "ba", "breakadd", "break-add", "badd", "breakpointadd", "breakpoint-add", "br", "breakremove", "break-remove", "break-rm", "bremove", "brm",
        "breakpointremove", "breakpoint-remove", "step", "s", "b", "break", "foo", "", "",
    ];
    const SUBS: [&str; 22] = ["", "i", "into", "in", "o", "out", "finish", "fin", "next", "l", "list", "ls", "a", "add", "set", "r", "remove", "rm", "delete", "x", "print", "2"];
    const ARGS: [&str; 9] = ["", "r1", "x20", "Foo", "r1 5", "x20 7", "^1", "3", "Foo+1 2 3"];
    let mut out = Vec::new();
    for n in NAMES {
        if n.is_empty() || n == "q" || n == "x" || n == ":q" || n == ":wq" || n == "^C" {
            continue; // quitting names are probed at the end of dedicated sessions
        }
        for mode in 0..3 {
            let w = recase(rng, n, mode);
            if n == "step" || n == "s" || n == "b" || n == "break" {
                for sub in SUBS {
                    for arg in ["", "2", "x20"] {
                        out.push(format!("{} {} {}", w, recase(rng, sub, mode), arg).trim().to_string());
                    }
                }
            } else {
                for arg in ARGS {
                    out.push(format!("{} {}", w, arg).trim().to_string());
                }
            }
        }
    }
    // spacing
    out.push("  print    r1  ".to_string());
    out.push("move  r1   x5".to_string());
    out.push("echo   a  b   ".to_string());
    out.push("echo".to_string());
    out.push("eval".to_string());
    out.push("print\tr1".to_string());
    // characters that only LOOK like the letters of a name (KELVIN SIGN for k, LONG S for s): not the command
    for n in NAMES {
        if n.contains('k') || n.contains('s') {
            let fake: String = n.chars().map(|c| if c == 'k' { '\u{212A}' } else if c == 's' { '\u{17F}' } else { c }).collect();
            for arg in ["", "x20", "add x20", "into 2", "list"] {
                out.push(format!("{} {}", fake, arg).trim_end().to_string());
            }
            out.push(format!("{} x20", n.to_uppercase().replace('K', "\u{212A}")));
        }
    }
    // white space other than the blank is not a separator: it belongs to the token it touches
    for l in ["move r1 5\tjunk", "step\tfoo bar", "break add x20\tx21", "goto x20\t# c", "move r1 5\u{a0}junk", "print r1\u{a0}", "move\tr1 5", "move r1\t5",
              "step\t", "\tstep", "r\t", "break\tadd x20", "step into\t2", "move r1 5 \t", "print r1\u{3000}x",
              "move \tr1 \t#23", "break add \u{a0}x20", "print \tr1", "goto \u{3000}x20", "step into \t2", "move r1 \t5", " \tstep", "echo \tx"] {
        out.push(l.to_string());
    }
    // very long argument lists
    for head in ["print r1", "step", "move r1 5", "break add x20", "registers", "goto x20", "echo"] {
        for k in [250usize, 256, 300, 1000] {
            out.push(format!("{}{}", head, " w".repeat(k)));
        }
    }
    out
}

pub fn main(args: &Args) {
    let mode = args.req("mode").to_string();
    let seed = args.num("seed", 1);
    let len = args.num("len", 3) as usize;
    let n = args.num("n", 500) as usize;
    let stride = args.num("stride", 1) as usize;
    let phase = args.num("phase", 0) as usize;
    let path = args.req("out").to_string();
    let mut rng = Rng::new(seed ^ 0xC14);
    let sessions = match mode.as_str() {
        "tokens" => {
            // every string over the alphabet up to `len`, in three argument positions
            let toks: Vec<String> = strings_upto(len).into_iter().enumerate().filter(|(i, _)| i % stride == phase % stride).map(|(_, s)| s).collect();
            let mut lines = Vec::new();
            for t in &toks {
                lines.push(format!("move r1 {}", t));
                lines.push(format!("goto {}", t));
                lines.push(format!("print {}", t));
            }
            mk_sessions(lines, 600, "tok", &mut rng)
        }
        "random" => {
            // longer tokens, including edges of i32 / u16 / i16 in each radix and multi-byte characters
            const EDGE: [&str; 40] = [
                "2147483647", "2147483648", "2147483649", "-2147483647", "-2147483648", "4294967296", "99999999999", "65535", "65536", "-32768", "-32769", "32767", "32768",
                "xffff", "x10000", "x-8000", "x-8001", "x7fffffff", "x80000000", "xffffffff", "o177777", "o200000", "o-100000", "b1111111111111111", "b10000000000000000",
                "#65535", "#-32768", "-#2", "x+4", "0x4", "00x4", "0#2", "#", "0", "-0", "+0", "0x", "0b", "é", "x😀",
            ];
            let mut lines = Vec::new();
            for l in ["Foo", "bar", "_x", "L0", "r_"] {
                for off in ["+32767", "+32768", "+40000", "+65534", "+65535", "+65536", "+x7fff", "+x8000", "+xffff", "+x10000", "-32768", "-32769", "-65535", "-x8000", "-x8001"] {
                    for p in ["goto ", "move ", "break add ", "print ", "assembly "] {
                        lines.push(if p == "move " { format!("move {}{} 5", l, off) } else { format!("{}{}{}", p, l, off) });
                    }
                }
            }
            for e in EDGE {
                for p in ["move r1 ", "goto ", "print ", "goto ^", "goto Foo+", "goto Foo-", "print bar", "move "] {
                    lines.push(format!("{}{}", p, e));
                }
            }
            for _ in 0..n {
                let l = 4 + rng.below(5) as usize;
                let mut t = String::new();
                for _ in 0..l {
                    t.push_str(if rng.chance(1, 30) { *rng.pick(&["é", "😀", "Z", "R", "X", "."]) } else { *rng.pick(&ALPHABET) });
                }
                let p = *rng.pick(&["move r1 ", "goto ", "print ", "break add ", "goto Foo", "goto bar+", "goto ^", "move r2 -", "print r"]);
                lines.push(format!("{}{}", p, t));
            }
            mk_sessions(lines, 600, "rnd", &mut rng)
        }
        "names" => {
            let mut s = mk_sessions(name_lines(&mut rng), 400, "name", &mut rng);
            // quitting names end a session each
            for (i, q) in ["q", "QUIT", "x", "Exit", ":q", ":wq", "^C", "^c", "quit now", "exit 1", "sudo", "SUDO"].iter().enumerate() {
                let (ast, _) = probe_program();
                let r = render(&mut rng, &ast, &Layout { wild: false, comments: false });
                let script = vec![line_cmd("move r1 5".to_string()), line_cmd(q.to_string()), line_cmd("move r1 6".to_string())];
                s.push(Session { id: format!("cmd:quit:{}", i), program: Program::Asm { src: r.src, ast, texts: r.texts }, stack: false, input: vec![],
                                 script: Some(script), fuel: 50, mayloop: true });
            }
            s
        }
        other => panic!("unknown mode {other}"),
    };
    let mut out = Out::create(&path);
    let total = sessions.len();
    for sess in sessions {
        let events = run_session_watched(sess);
        for e in &events {
            out.emit(e);
        }
    }
    println!("\n{}", json!({"family": "cmd", "sessions": total, "events": out.finish()}));
}
