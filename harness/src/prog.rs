//! Syntax trees of LC-3 programs, a renderer with seeded layout freedom, and generators.
//!
//! Nothing in here knows what a statement assembles to or does: trees are rendered to text for
//! the real assembler and serialised to JSON for the TLA+ specification, which is the only oracle.

use serde_json::{json, Value};

use crate::util::Rng;

#[derive(Clone, Debug, Default)]
pub struct Item {
    pub k: &'static str,
    pub labs: Vec<String>,
    pub a: i64,
    pub b: i64,
    pub c: i64,
    pub m: &'static str,
    pub tt: &'static str,
    pub tn: String,
    pub tv: i64,
    pub s: Vec<u32>,
    /// Raw text to put in place of the statement (used for text after `.end`).
    pub raw: Option<String>,
}

impl Item {
    pub fn new(k: &'static str) -> Self {
        Item { k, m: "r", tt: "lit", ..Default::default() }
    }
    pub fn lab(mut self, l: &str) -> Self {
        self.labs.push(l.to_string());
        self
    }
    pub fn to_json(&self) -> Value {
        json!({"k": self.k, "labs": self.labs, "a": self.a, "b": self.b, "c": self.c, "m": self.m,
               "tt": self.tt, "tn": self.tn, "tv": self.tv, "s": self.s})
    }
    pub fn from_json(v: &Value) -> Self {
        fn st(s: &str) -> &'static str {
            Box::leak(s.to_string().into_boxed_str())
        }
        Item {
            k: st(v["k"].as_str().unwrap()),
            labs: v["labs"].as_array().unwrap().iter().map(|x| x.as_str().unwrap().to_string()).collect(),
            a: v["a"].as_i64().unwrap(),
            b: v["b"].as_i64().unwrap(),
            c: v["c"].as_i64().unwrap(),
            m: st(v["m"].as_str().unwrap()),
            tt: st(v["tt"].as_str().unwrap()),
            tn: v["tn"].as_str().unwrap().to_string(),
            tv: v["tv"].as_i64().unwrap(),
            s: v["s"].as_array().unwrap().iter().map(|x| x.as_u64().unwrap() as u32).collect(),
            raw: None,
        }
    }
}

pub fn ast_json(ast: &[Item]) -> Value {
    Value::Array(ast.iter().map(|i| i.to_json()).collect())
}

// ---- constructors -------------------------------------------------------------------------

pub fn add_r(dr: i64, sr1: i64, sr2: i64) -> Item {
    Item { a: dr, b: sr1, c: sr2, m: "r", ..Item::new("add") }
}
pub fn add_i(dr: i64, sr1: i64, imm: i64) -> Item {
    Item { a: dr, b: sr1, c: imm, m: "i", ..Item::new("add") }
}
pub fn and_r(dr: i64, sr1: i64, sr2: i64) -> Item {
    Item { a: dr, b: sr1, c: sr2, m: "r", ..Item::new("and") }
}
pub fn and_i(dr: i64, sr1: i64, imm: i64) -> Item {
    Item { a: dr, b: sr1, c: imm, m: "i", ..Item::new("and") }
}
pub fn not(dr: i64, sr: i64) -> Item {
    Item { a: dr, b: sr, ..Item::new("not") }
}
pub fn reg1(k: &'static str, r: i64) -> Item {
    Item { b: r, ..Item::new(k) }
}
pub fn plain(k: &'static str) -> Item {
    Item::new(k)
}
pub fn pc_lab(k: &'static str, r: i64, label: &str) -> Item {
    Item { a: r, tt: "lab", tn: label.to_string(), ..Item::new(k) }
}
pub fn pc_lit(k: &'static str, r: i64, off: i64) -> Item {
    Item { a: r, tt: "lit", tv: off, ..Item::new(k) }
}
pub fn br_lab(cond: i64, label: &str) -> Item {
    Item { c: cond, tt: "lab", tn: label.to_string(), ..Item::new("br") }
}
pub fn br_lit(cond: i64, off: i64) -> Item {
    Item { c: cond, tt: "lit", tv: off, ..Item::new("br") }
}
pub fn base_off(k: &'static str, r: i64, base: i64, off: i64) -> Item {
    Item { a: r, b: base, c: off, ..Item::new(k) }
}
pub fn trap(v: i64) -> Item {
    Item { c: v, ..Item::new("trap") }
}
pub fn fill(v: i64) -> Item {
    Item { c: v, ..Item::new("fill") }
}
pub fn blkw(n: i64) -> Item {
    Item { c: n, ..Item::new("blkw") }
}
pub fn stringz(s: &str) -> Item {
    Item { s: s.chars().map(|c| c as u32).collect(), ..Item::new("stringz") }
}
pub fn orig(v: i64) -> Item {
    Item { c: v, ..Item::new("orig") }
}

pub const PC9: [&str; 5] = ["ld", "ldi", "lea", "st", "sti"];
pub const TRAP_ALIASES: [&str; 8] = ["getc", "out", "puts", "in", "putsp", "halt", "putn", "reg"];

// ---- rendering ----------------------------------------------------------------------------

#[derive(Clone, Debug)]
pub struct Layout {
    /// 0 = canonical (lower case, single spaces, one statement per line, decimal literals).
    pub wild: bool,
    pub comments: bool,
}

pub struct Rendered {
    pub src: String,
    /// For every item that occupies words: the statement text as written (mnemonic/directive
    /// through last operand), in item order. Used by C17.
    pub texts: Vec<(usize, String)>,
}

fn recase(rng: &mut Rng, word: &str, wild: bool) -> String {
    if !wild {
        return word.to_string();
    }
    match rng.below(4) {
        0 => word.to_string(),
        1 => word.to_uppercase(),
        _ => word
            .chars()
            .map(|c| if rng.chance(1, 2) { c.to_ascii_uppercase() } else { c.to_ascii_lowercase() })
            .collect(),
    }
}

fn sep(rng: &mut Rng, wild: bool) -> &'static str {
    if !wild {
        return " ";
    }
    // (a line break is white space like any other: now and then an operand continues on the next line)
    if rng.chance(1, 12) {
        return *rng.pick(&["\n", ",\n  ", " \n\t"]);
    }
    *rng.pick(&[" ", ", ", ",", " , ", "\t", "  ", ",\t", ", ,"])
}

/// A literal with the given written value, in one of the spellings the lexer documents.
pub fn spell_lit(rng: &mut Rng, v: i64, wild: bool) -> String {
    let hexdigits = |n: i64, rng: &mut Rng| -> String {
        let s = format!("{:x}", n);
        let s = if rng.chance(1, 4) { format!("0{}", s) } else { s };
        if rng.chance(1, 2) {
            s.to_uppercase()
        } else {
            s
        }
    };
    if !wild {
        return format!("#{}", v);
    }
    let choice = rng.below(6);
    if v < 0 {
        match choice {
            0 | 1 => format!("#{}", v),
            2 => format!("x-{}", hexdigits(-v, rng)),
            3 => format!("X-{}", hexdigits(-v, rng)),
            4 => format!("0x-{}", hexdigits(-v, rng)),
            _ => format!("#-0{}", -v),
        }
    } else {
        match choice {
            0 | 1 => format!("#{}", v),
            2 => format!("x{}", hexdigits(v, rng)),
            3 => format!("0x{}", hexdigits(v, rng)),
            4 => format!("0X{}", hexdigits(v, rng)),
            _ => format!("X{}", hexdigits(v, rng)),
        }
    }
}

fn reg_name(rng: &mut Rng, r: i64, wild: bool) -> String {
    if wild && rng.chance(1, 2) {
        format!("R{}", r)
    } else {
        format!("r{}", r)
    }
}

pub fn escape_str(s: &[u32]) -> String {
    let mut out = String::new();
    for &c in s {
        match c {
            10 => out.push_str("\\n"),
            9 => out.push_str("\\t"),
            13 => out.push_str("\\r"),
            92 => out.push_str("\\\\"),
            34 => out.push_str("\\\""),
            _ => out.push(char::from_u32(c).unwrap()),
        }
    }
    out
}

const BR_NAMES: [&[&str]; 8] = [&[], &["brp"], &["brz"], &["brzp"], &["brn"], &["brnp"], &["brnz"], &["brnzp", "br"]];

fn target(rng: &mut Rng, it: &Item, wild: bool) -> String {
    if it.tt == "lab" {
        it.tn.clone()
    } else {
        spell_lit(rng, it.tv, wild)
    }
}

/// Statement text: mnemonic/directive through its last operand.
pub fn render_stmt(rng: &mut Rng, it: &Item, wild: bool) -> String {
    let mut parts: Vec<String> = Vec::new();
    let kw = |rng: &mut Rng, w: &str| recase(rng, w, wild);
    match it.k {
        "add" | "and" => {
            parts.push(kw(rng, it.k));
            parts.push(reg_name(rng, it.a, wild));
            parts.push(reg_name(rng, it.b, wild));
            parts.push(if it.m == "r" { reg_name(rng, it.c, wild) } else { spell_lit(rng, it.c, wild) });
        }
        "not" => {
            parts.push(kw(rng, "not"));
            parts.push(reg_name(rng, it.a, wild));
            parts.push(reg_name(rng, it.b, wild));
        }
        "br" => {
            let names = BR_NAMES[it.c as usize];
            let name = if wild { *rng.pick(names) } else { names[0] };
            parts.push(kw(rng, name));
            parts.push(target(rng, it, wild));
        }
        "jmp" | "jsrr" | "push" | "pop" => {
            parts.push(kw(rng, it.k));
            parts.push(reg_name(rng, it.b, wild));
        }
        "jsr" | "call" => {
            parts.push(kw(rng, it.k));
            parts.push(target(rng, it, wild));
        }
        "ld" | "ldi" | "lea" | "st" | "sti" => {
            parts.push(kw(rng, it.k));
            parts.push(reg_name(rng, it.a, wild));
            parts.push(target(rng, it, wild));
        }
        "ldr" | "str" => {
            parts.push(kw(rng, it.k));
            parts.push(reg_name(rng, it.a, wild));
            parts.push(reg_name(rng, it.b, wild));
            parts.push(spell_lit(rng, it.c, wild));
        }
        "trap" => {
            parts.push(kw(rng, "trap"));
            parts.push(spell_lit(rng, it.c, wild));
        }
        "fill" => {
            parts.push(kw(rng, ".fill"));
            parts.push(spell_lit(rng, it.c, wild));
        }
        "blkw" => {
            parts.push(kw(rng, ".blkw"));
            // counts are never written negative
            parts.push(spell_lit(rng, it.c, wild));
        }
        "stringz" => {
            parts.push(kw(rng, ".stringz"));
            parts.push(format!("\"{}\"", escape_str(&it.s)));
        }
        "orig" => {
            parts.push(kw(rng, ".orig"));
            parts.push(spell_lit(rng, it.c, wild));
        }
        "break" => parts.push(kw(rng, ".break")),
        "end" => parts.push(kw(rng, ".end")),
        other => parts.push(kw(rng, other)), // ret rti rets + trap aliases
    }
    let mut s = String::new();
    for (i, p) in parts.iter().enumerate() {
        if i > 0 {
            // the string literal and directives need real whitespace before them
            s.push_str(if it.k == "stringz" { " " } else { sep(rng, wild) });
        }
        s.push_str(p);
    }
    s
}

const COMMENTS: [&str; 6] = ["; plain", ";", "; add r0 r0 r0 .fill x3000 \"str", "; héllo wörld ✓ 😀", ";;; ---", "; trailing\t"];

pub fn render(rng: &mut Rng, ast: &[Item], lay: &Layout) -> Rendered {
    let mut src = String::new();
    let mut texts = Vec::new();
    let wild = lay.wild;
    if lay.comments && rng.chance(1, 2) {
        src.push_str(*rng.pick(&COMMENTS));
        src.push('\n');
    }
    for (idx, it) in ast.iter().enumerate() {
        if wild && rng.chance(1, 6) {
            src.push_str(*rng.pick(&["\n", "   \n", "\t\n", "\n\n"]));
        }
        if lay.comments && rng.chance(1, 8) {
            src.push_str(*rng.pick(&COMMENTS));
            src.push('\n');
        }
        let indent = if wild { *rng.pick(&["", "    ", "\t", " "]) } else { "" };
        src.push_str(indent);
        for l in &it.labs {
            src.push_str(l);
            let after = if wild { *rng.pick(&[" ", ":", ": ", "\n", ":\n    ", "\t", " :"]) } else { " " };
            src.push_str(after);
        }
        if let Some(raw) = &it.raw {
            src.push_str(raw);
            src.push('\n');
            continue;
        }
        let text = render_stmt(rng, it, wild);
        let words = match it.k {
            "orig" | "break" | "end" => false,
            _ => true,
        };
        if words {
            texts.push((idx, text.clone()));
        }
        src.push_str(&text);
        let mut commented = false;
        if lay.comments && rng.chance(1, 4) {
            src.push(' ');
            src.push_str(*rng.pick(&COMMENTS));
            commented = true;
        }
        // statements normally end a line; sometimes several share one
        if wild && !commented && rng.chance(1, 10) && it.k != "stringz" {
            src.push_str("  ");
        } else {
            src.push('\n');
        }
    }
    Rendered { src, texts }
}

// ---- generators ---------------------------------------------------------------------------

pub const KEYWORDS: [&str; 40] = [
    "add", "and", "br", "brnzp", "brnz", "brzp", "brnp", "brn", "brz", "brp", "jmp", "jsr", "jsrr", "ld", "ldi", "ldr",
    "lea", "not", "ret", "rti", "st", "sti", "str", "pop", "push", "call", "rets", "trap", "getc", "out", "puts", "in",
    "putsp", "halt", "putn", "reg", "r0", "r7", "x1", "xff",
];

pub fn label_name(n: usize, rng: &mut Rng) -> String {
    const STEMS: [&str; 14] = ["loop", "L", "Data", "_tmp", "done", "Loop", "msg", "ptr", "xyz", "x_", "a", "Z9", "br_", "r8"];
    let stem = *rng.pick(&STEMS);
    format!("{}{}", stem, n)
}

/// A random well-formed, in-range statement which occupies words (no labels attached).
pub fn random_stmt(rng: &mut Rng, labels: &[String], stack: bool) -> Item {
    let r = |rng: &mut Rng| rng.below(8) as i64;
    let tgt_lab = |rng: &mut Rng| labels[rng.below(labels.len() as u64) as usize].clone();
    let n = if stack { 27 } else { 23 };
    match rng.below(n) {
        0 => add_r(r(rng), r(rng), r(rng)),
        1 => add_i(r(rng), r(rng), rng.range(-16, 15)),
        2 => and_r(r(rng), r(rng), r(rng)),
        3 => and_i(r(rng), r(rng), rng.range(-16, 15)),
        4 => not(r(rng), r(rng)),
        5 => {
            let cond = rng.range(1, 7);
            if !labels.is_empty() && rng.chance(2, 3) {
                br_lab(cond, &tgt_lab(rng))
            } else {
                br_lit(cond, rng.range(-256, 255))
            }
        }
        6 => reg1("jmp", r(rng)),
        7 => plain("ret"),
        8 => {
            if !labels.is_empty() && rng.chance(2, 3) {
                pc_lab("jsr", 0, &tgt_lab(rng))
            } else {
                pc_lit("jsr", 0, rng.range(-1024, 1023))
            }
        }
        9 => reg1("jsrr", r(rng)),
        10..=14 => {
            let k = PC9[(rng.below(5)) as usize];
            if !labels.is_empty() && rng.chance(2, 3) {
                pc_lab(k, r(rng), &tgt_lab(rng))
            } else {
                pc_lit(k, r(rng), rng.range(-256, 255))
            }
        }
        15 => base_off("ldr", r(rng), r(rng), rng.range(-32, 31)),
        16 => base_off("str", r(rng), r(rng), rng.range(-32, 31)),
        17 => plain("rti"),
        18 => trap(rng.range(0, 255)),
        19 => plain(*rng.pick(&TRAP_ALIASES)),
        20 => fill(if rng.chance(1, 2) { rng.range(-32768, 65535) } else { rng.boundary_word() as i64 }),
        21 => blkw(rng.range(0, 6)),
        22 => {
            const STRS: [&str; 10] = ["", "a", "Hello, world!", "tab\there", "quote\"q", "back\\slash", "nl\n", "é ü ✓", "C:\\new\\table\\r", "\\\\n"];
            stringz(*rng.pick(&STRS))
        }
        23 => reg1("push", r(rng)),
        24 => reg1("pop", r(rng)),
        25 => {
            if !labels.is_empty() {
                pc_lab("call", 0, &tgt_lab(rng))
            } else {
                plain("rets")
            }
        }
        _ => plain("rets"),
    }
}

/// Random multi-statement program (not meant to be executed): all forms, several labels used
/// before and after their definition, optional `.orig` anywhere, `.break`, `.end`.
pub fn random_program(rng: &mut Rng, stack: bool) -> Vec<Item> {
    let n = 3 + rng.below(60) as usize;
    let nlabels = (rng.below(8) as usize).min(n);
    let mut labels: Vec<String> = (0..nlabels).map(|i| label_name(i, rng)).collect();
    // now and then two of the labels differ only in the letter case of one character (they are still two labels)
    if nlabels >= 2 && rng.chance(1, 3) {
        let base = labels[0].clone();
        let flipped: String = {
            let mut done = false;
            base.chars()
                .map(|c| {
                    if !done && c.is_ascii_alphabetic() {
                        done = true;
                        if c.is_ascii_lowercase() { c.to_ascii_uppercase() } else { c.to_ascii_lowercase() }
                    } else {
                        c
                    }
                })
                .collect()
        };
        if flipped != base && !labels.contains(&flipped) {
            labels[1] = flipped;
        }
    }
    let mut ast: Vec<Item> = Vec::new();
    for _ in 0..n {
        ast.push(random_stmt(rng, &labels, stack));
    }
    // keep label distances small enough: total size is bounded (blkw <= 6, strings short)
    let mut positions: Vec<usize> = (0..n).collect();
    for (i, l) in labels.iter().enumerate() {
        let p = positions.remove(rng.below(positions.len() as u64) as usize);
        let _ = i;
        ast[p].labs.push(l.clone());
    }
    if rng.chance(2, 3) {
        let at = if rng.chance(1, 2) { 0 } else { rng.below(ast.len() as u64 + 1) as usize };
        let o = match rng.below(7) {
            0 => 0x3000,
            1 => 0,
            2 => 0x8000,
            3 => 0xFD00,
            // images that straddle the sign boundary of 16-bit addresses / the end of user space
            4 => 0x8000 - rng.range(1, n as i64 + 1),
            5 => 0xFE00 - rng.range(1, n as i64 + 1),
            _ => rng.word() as i64 % 0xF000,
        };
        ast.insert(at, orig(o));
    }
    for _ in 0..rng.below(3) {
        let at = rng.below(ast.len() as u64 + 1) as usize;
        ast.insert(at, plain("break"));
    }
    if rng.chance(1, 4) {
        ast.push(plain("end"));
        if rng.chance(1, 2) {
            let mut junk = plain("end");
            junk.k = "fill";
            junk.raw = Some("this is $$ not ( assembly \" at all add r9".to_string());
            ast.push(junk);
        }
    }
    ast
}
