//! C02: single-instruction executions of the real VM on planted machine states.
//!
//! The harness holds no instruction semantics: it plants a state, calls the real
//! `RunState::execute`, and logs pre-state, instruction word and the full observed post-state
//! (registers, PC, CC, diff over all 65,536 words, output, consumed input, how it ended).
//! `Trace_ISA.tla` decides whether that is what the ISA prescribes.

use lace::verif::{self, Event, Snapshot};
use lace::RunEnvironment;
use serde_json::json;

use crate::util::*;

/// Addresses worth planting memory at for this word/state, whatever the opcode turns out to be.
/// (Input shaping only: correctness never depends on these guesses.)
fn candidate_addrs(instr: u16, s: &Snapshot) -> Vec<u16> {
    let sext = |v: u16, bits: u32| -> u16 {
        let m = 1u16 << (bits - 1);
        let x = v & ((1u16 << bits) - 1);
        (x ^ m).wrapping_sub(m)
    };
    let base = s.reg[((instr >> 6) & 7) as usize];
    vec![
        s.pc.wrapping_add(sext(instr, 9)),
        base.wrapping_add(sext(instr, 6)),
        s.reg[7],
        s.reg[7].wrapping_sub(1),
        s.reg[7].wrapping_add(1),
    ]
}

fn plant_string(rng: &mut Rng, s: &mut Snapshot, packed: bool) {
    // R0 points at a well-formed string, sometimes wrapping past 0xFFFF, sometimes empty.
    let start: u16 = match rng.below(6) {
        0 => 0xFFFD,
        1 => 0xFFFF,
        2 => 0x0000,
        3 => 0x4000,
        _ => rng.word(),
    };
    s.reg[0] = start;
    let len = rng.below(5) as u16;
    let mut a = start;
    // now and then the string carries an ESC with more characters behind it (what --minimal drops is the ESC alone: D9)
    let esc_at: Option<u16> = if len >= 2 && rng.chance(1, 4) { Some(rng.below((len - 1) as u64) as u16) } else { None };
    for k in 0..len {
        let mut lo = 1 + rng.below(255) as u16;
        if esc_at == Some(k) {
            lo = 27;
        } else if esc_at.is_some() && k == len - 1 && rng.chance(1, 2) {
            lo = 'm' as u16;
        }
        let w = if packed {
            let last_odd = k == len - 1 && rng.chance(1, 2);
            let hi = if last_odd { 0 } else { 1 + rng.below(255) as u16 };
            (hi << 8) | lo
        } else {
            lo
        };
        s.mem[a as usize] = w;
        a = a.wrapping_add(1);
    }
    // a packed string of odd length ends at the zero byte in bits [15:8] of its last word: what
    // follows is not part of it, whether or not it is a x0000 word
    let ended_by_pad = packed && len > 0 && s.mem[a.wrapping_sub(1) as usize] >> 8 == 0;
    if ended_by_pad && rng.chance(1, 2) {
        s.mem[a as usize] = 0x6564;
        s.mem[a.wrapping_add(1) as usize] = 0;
    } else {
        s.mem[a as usize] = 0;
        // something after the terminator that must not be printed
        s.mem[a.wrapping_add(1) as usize] = 0x0041;
    }
}

pub fn gen_state(rng: &mut Rng, instr: u16, variant: u64) -> (Snapshot, Vec<u8>) {
    let orig: u16 = 0x3000;
    let mut s = zero_snapshot(orig);
    for r in 0..8 {
        s.reg[r] = rng.boundary_word();
    }
    // register coincidences are covered by the word sweep itself (DR = BaseR = R7 ...); force
    // interesting stack pointers and base registers now and then
    match variant % 6 {
        0 => s.reg[7] = 0,
        1 => s.reg[7] = 0xFFFF,
        2 => s.reg[7] = 0xFDFF,
        _ => {}
    }
    // the PC the handler sees is already incremented: fetch address in [orig, 0xFE00)
    s.pc = match rng.below(6) {
        0 => 0x3001,
        1 => 0xFE00,
        2 => 0x8000,
        3 => 0x7FFF,
        _ => 0x3001 + rng.below(0xFE00 - 0x3001) as u16,
    };
    s.cc = *rng.pick(&[0u8, 1, 2, 4]);

    let opcode = instr >> 12;
    let vect = instr & 0xFF;
    if opcode == 0xF {
        if vect == 0x22 || vect == 0x24 {
            plant_string(rng, &mut s, vect == 0x24);
        }
    } else {
        let addrs = candidate_addrs(instr, &s);
        for a in addrs {
            let v = rng.boundary_word();
            s.mem[a as usize] = v;
        }
        // second level (LDI / STI): plant at the pointer found at pc + offset9
        let p = s.mem[candidate_addrs(instr, &s)[0] as usize];
        if s.mem[p as usize] == 0 {
            s.mem[p as usize] = rng.boundary_word();
        }
        // a few unrelated words that must stay untouched
        for _ in 0..2 {
            let a = rng.word();
            if s.mem[a as usize] == 0 {
                s.mem[a as usize] = rng.word();
            }
        }
    }
    let input: Vec<u8> = match rng.below(4) {
        0 => vec![],
        1 => vec![0x80 + rng.below(0x80) as u8],
        _ => vec![rng.below(0x80) as u8, rng.below(256) as u8],
    };
    (s, input)
}

pub fn run_case(env: &mut RunEnvironment, pre: &Snapshot, input: &[u8], instr: u16) -> serde_json::Value {
    env.verif_restore(pre);
    verif::arm(None, input, false);
    let (_, ended) = guarded(|| env.verif_execute(instr));
    let events = verif::disarm();
    let post = env.verif_snapshot();
    let mut out = String::new();
    let mut nin = 0;
    let mut banner = false;
    for (e, _) in events {
        match e {
            Event::Stdout(t) => out.push_str(&t),
            Event::Input(_) => nin += 1,
            Event::HaltBanner => banner = true,
            _ => {}
        }
    }
    json!({
        "ev": "exec", "instr": instr,
        "reg": post.reg, "pc": post.pc, "cc": post.cc,
        "memd": mem_diff(&pre.mem, &post.mem),
        "out": codepoints(&out), "nin": nin, "banner": banner,
        "kind": ended.kind(), "code": ended.code(), "msg": ended.msg(),
    })
}

pub fn main(args: &Args) {
    let from = args.num("from", 0) as u32;
    let to = args.num("to", 0x10000) as u32; // exclusive
    let states = args.num("states", 1);
    let seed = args.num("seed", 1);
    let stack = args.num("stack", 1) != 0;
    let step = args.num("step", 1) as u32;
    let path = args.req("out").to_string();

    let lines = on_fresh_thread(move || {
        lace::features::init(if stack { "stack".parse().unwrap() } else { "".parse().unwrap() });
        lace::set_minimal(true);
        let mut out = Out::create(&path);
        let mut env = RunEnvironment::from_raw(&[0x3000]).expect("empty image");
        let mut w = from;
        while w < to {
            let instr = w as u16;
            for k in 0..states {
                let mut rng = Rng::new(seed ^ ((w as u64) << 20) ^ (k << 8) ^ (stack as u64));
                let (pre, input) = gen_state(&mut rng, instr, k + w as u64);
                out.emit(&json!({
                    "ev": "set", "reg": pre.reg, "pc": pre.pc, "cc": pre.cc,
                    "mem": nonzero(&pre.mem), "stack": stack, "inb": input,
                }));
                let ev = run_case(&mut env, &pre, &input, instr);
                out.emit(&ev);
            }
            w += step;
        }
        out.finish()
    });
    println!("\n{}", json!({"family": "isa", "events": lines, "cases": lines / 2}));
}

/// Re-execute the cases of a replay file (`[set, exec, set, exec ...]` events) on the current tree.
pub fn replay(args: &Args) {
    let events: Vec<serde_json::Value> =
        serde_json::from_str(&std::fs::read_to_string(args.req("case")).unwrap()).unwrap();
    let path = args.req("out").to_string();
    let stack = events.iter().find(|e| e["ev"] == "set").map(|e| e["stack"].as_bool().unwrap()).unwrap_or(true);
    let lines = on_fresh_thread(move || {
        lace::features::init(if stack { "stack".parse().unwrap() } else { "".parse().unwrap() });
        lace::set_minimal(true);
        let mut out = Out::create(&path);
        let mut env = RunEnvironment::from_raw(&[0x3000]).expect("empty image");
        let mut i = 0;
        while i + 1 < events.len() {
            let (set, exec) = (&events[i], &events[i + 1]);
            i += 2;
            let mut pre = zero_snapshot(0x3000);
            for (k, v) in set["reg"].as_array().unwrap().iter().enumerate() {
                pre.reg[k] = v.as_u64().unwrap() as u16;
            }
            pre.pc = set["pc"].as_u64().unwrap() as u16;
            pre.cc = set["cc"].as_u64().unwrap() as u8;
            for p in set["mem"].as_array().unwrap() {
                pre.mem[p[0].as_u64().unwrap() as usize] = p[1].as_u64().unwrap() as u16;
            }
            let input: Vec<u8> = set["inb"].as_array().unwrap().iter().map(|b| b.as_u64().unwrap() as u8).collect();
            out.emit(set);
            let ev = run_case(&mut env, &pre, &input, exec["instr"].as_u64().unwrap() as u16);
            out.emit(&ev);
        }
        out.finish()
    });
    println!("\n{}", json!({"family": "isa", "events": lines, "cases": lines / 2}));
}
