//! Raw token streams of the real lexer for texts enumerated over characters and over chunks.

use lace::StaticSource;
use serde_json::json;

use crate::util::*;

fn char_index(src: &str, byte: usize) -> i64 {
    if byte > src.len() || !src.is_char_boundary(byte) {
        return -1;
    }
    src[..byte].chars().count() as i64
}

fn lex_event(out: &mut Out, src: &str, stack: bool) {
    let mut holder = StaticSource::new(src.to_string());
    let text: &'static str = holder.src();
    case_begin(text);
    let (toks, ended) = guarded(|| lace::verif::lex(text));
    case_end();
    let toks = toks.unwrap_or_default();
    let list: Vec<serde_json::Value> = toks
        .iter()
        .map(|(k, off, len)| {
            let a = char_index(src, *off);
            let b = char_index(src, off + len);
            json!([k, a, if a < 0 || b < 0 { -1 } else { b - a }])
        })
        .collect();
    out.emit(&json!({"ev": "lex", "chars": src.chars().map(|c| c.to_string()).collect::<Vec<_>>(), "toks": list, "stack": stack,
                     "panic": ended != Ended::Returned, "msg": ended.msg(), "src": src}));
    holder.reclaim();
}

pub fn main(args: &Args) {
    let mode = args.req("mode").to_string();
    let seed = args.num("seed", 1);
    let len = args.num("len", 3) as usize;
    let n = args.num("n", 1000) as usize;
    let stack = args.num("stack", 1) != 0;
    let stride = args.num("stride", 1) as u64;
    let phase = args.num("phase", 0) as u64;
    let path = args.req("out").to_string();
    let summary = on_fresh_thread(move || {
        lace::features::init(if stack { "stack".parse().unwrap() } else { "".parse().unwrap() });
        let mut rng = Rng::new(seed ^ 0x1E8);
        let mut out = Out::create(&path);
        const CH: [&str; 24] = ["a", "d", "x", "X", "r", "R", "0", "7", "9", "f", "#", "-", "+", ".", "\"", "\\", ";", " ", ",", ":", "\n", "é", "$", "_"];
        const CHUNKS: [&str; 40] = [
            "add", "ADD", "halt", "push", "Rets", "brnz", "trap", ".orig", ".FILL", ".stringz", ".bogus", ".end", "r3", "R7", "r8", "r12", "r0;", "x1F", "xffff", "0x-2",
            "x-8000", "x-8001", "x10000", "x", "0x", "xyz", "#-5", "#65535", "#65536", "#", "#+7", "\"s\"", "\"a\\\"b\"", "\"open", ";c", " ", ",", "\n", "é", "lab_1",
        ];
        let enumerate = |alpha: &[&str], len: usize, out: &mut Out| {
            let k = alpha.len() as u64;
            let mut counter = 0u64;
            for l in 0..=len {
                for code in 0..k.pow(l as u32) {
                    counter += 1;
                    if counter % stride != phase % stride {
                        continue;
                    }
                    let mut c = code;
                    let mut text = String::new();
                    for _ in 0..l {
                        text.push_str(alpha[(c % k) as usize]);
                        c /= k;
                    }
                    lex_event(out, &text, stack);
                }
            }
        };
        match mode.as_str() {
            "chars" => enumerate(&CH, len, &mut out),
            "chunks" => enumerate(&CHUNKS, len, &mut out),
            "random" => {
                for _ in 0..n {
                    let l = 2 + rng.below(8) as usize;
                    let mut text = String::new();
                    for _ in 0..l {
                        if rng.chance(1, 2) {
                            text.push_str(*rng.pick(&CHUNKS));
                            if rng.chance(2, 3) {
                                text.push_str(*rng.pick(&[" ", ", ", "\n", "\t", ":"]));
                            }
                        } else {
                            text.push_str(*rng.pick(&CH));
                        }
                    }
                    lex_event(&mut out, &text, stack);
                }
            }
            other => panic!("unknown mode {other}"),
        }
        json!({"family": "lex", "events": out.finish()})
    });
    println!("\n{}", summary);
}
