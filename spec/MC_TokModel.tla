----------------------------- MODULE MC_TokModel ------------------------------
(* C05 part A: the front end is total - every token kind sequence up to L has a verdict -  *)
(* and consuming: preprocessing never lengthens beyond 2x, parsing consumes one token per  *)
(* step (the recursion in TokModel terminates because the sequence shrinks).               *)
EXTENDS TokModel, TLC
CONSTANT L
VARIABLE s
Init == s \in UNION { [1 .. n -> Kinds] : n \in 0 .. L }
Next == UNCHANGED s
Spec == Init /\ [][Next]_s
Verdict == TokAccepts(s) \in BOOLEAN
PreBound == LET p == Pre(s) IN ~p.ok \/ Len(p.toks) <= 2 * Len(s)
(* a sequence that starts a statement with an operand token is never accepted *)
OperandFirst == (s # << >> /\ s[1] \in {"DEC", "HEX", "STR", "REG"}) =>
                  (~TokAccepts(s) /\ (Pre(s).ok => TokResult(s).code = "parse::unexpected_token"))
=============================================================================
