SPECIFICATION Spec
CONSTANT RESET = TRUE
CONSTANT LEN = 4
INVARIANT Pure
CHECK_DEADLOCK FALSE
