SPECIFICATION Spec
CONSTANT N = 2
CONSTANT BOUND = 6
INVARIANT LoadOK
INVARIANT StopKinds
INVARIANT NormalEnd
INVARIANT TypeOK
PROPERTY FetchInBounds
PROPERTY ExcMeans
CHECK_DEADLOCK FALSE
