SPECIFICATION Spec
CONSTANT N = 3
CONSTANT CORE = TRUE
CONSTANT STACK = TRUE
INVARIANT Refines
INVARIANT NoSpill
INVARIANT Progress
CHECK_DEADLOCK FALSE
