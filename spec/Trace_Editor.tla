---------------------------- MODULE Trace_Editor ------------------------------
(***************************************************************************)
(* Trace validation for C20: key presses fed to the real Terminal (through *)
(* the cfg-gated key source) with the buffer, focused line, cursor and     *)
(* history index observed after every key, and every command the reader    *)
(* handed out, against module Editor.                                      *)
(***************************************************************************)
EXTENDS TraceCommon, Editor

VARIABLES l, bad, taint
vars == << evars, l, bad, taint >>
Ev == Rec[l]

Init == /\ l = 1 /\ bad = {} /\ taint = TRUE
        /\ buf = << >> /\ cur = 0 /\ hist = << >> /\ idx = 0 /\ pieces = << >> /\ submitted = << >>

TInit == /\ l <= NRec /\ Ev.ev = "init"
         /\ hist' = Ev.hist /\ idx' = Len(Ev.hist) /\ buf' = << >> /\ cur' = 0 /\ pieces' = << >> /\ submitted' = << >>
         /\ taint' = FALSE /\ l' = l + 1 /\ UNCHANGED bad

KeyAction(k) ==
  CASE k.k = "char"      -> IF k.c \in Chars THEN KChar(k.c) ELSE KControl
    [] k.k = "backspace" -> KBackspace
    [] k.k = "delete"    -> KDelete
    [] k.k = "left"      -> KLeft
    [] k.k = "right"     -> KRight
    [] k.k = "ctrlleft"  -> KCtrlLeft
    [] k.k = "ctrlright" -> KCtrlRight
    [] k.k = "up"        -> KUp
    [] k.k = "down"      -> KDown
    [] k.k = "enter"     -> KEnterEmpty \/ KEnterSubmit

TKey ==
  /\ Ev.ev = "key" /\ pieces = << >>
  /\ KeyAction(Ev.key)
  /\ Ev.buffer = buf' /\ Ev.cursor = cur'
  /\ Ev.eol = (pieces' # << >>)
  /\ IF Ev.eol
     THEN Ev.index = Len(hist) /\ Ev.current = buf'          \* observed before the history push
     ELSE Ev.index = idx' /\ Ev.current = (IF idx' >= Len(hist') THEN buf' ELSE hist'[idx' + 1])
  /\ cur' >= 0 /\ cur' <= Len(Ev.current)                     \* C20

(* a command handed out by the reader *)
TRead ==
  /\ Ev.ev = "read" /\ pieces # << >>
  /\ Ev.cmd = Head(pieces)
  /\ pieces' = Tail(pieces)
  /\ IF Tail(pieces) = << >>
     THEN buf' = << >> /\ cur' = 0 /\ UNCHANGED << hist, idx, submitted >>   \* the next read starts a new line
     ELSE UNCHANGED << buf, cur, hist, idx, submitted >>

(* the key source ran dry: the editor was waiting for a key *)
TEnd == /\ Ev.ev = "end" /\ Ev.kind = "keys" /\ pieces = << >>
        /\ Ev.history = hist
        /\ UNCHANGED evars

(* ---- sessions typed into the REAL terminal through a pty (Terminal::read_line_raw, term.rs key decoding, the   *)
(* history file): nothing is observed per key; what is compared is the history file at the end.                   *)
TBlindKey ==
  /\ Ev.ev = "bkey" /\ pieces = << >>
  /\ KeyAction(Ev.key)
  /\ cur' >= 0 /\ cur' <= Len(IF idx' >= Len(hist') THEN buf' ELSE hist'[idx' + 1])
(* the same keys as a terminal speaking the keyboard-enhancement protocol reports them: every event carries its kind. A press and an       *)
(* auto-repeat of a held key are key presses; a release is not a key press: nothing changes.                                             *)
WireKinds == { "press", "repeat", "release" }
TBlindWire ==
  /\ Ev.ev = "bwire" /\ Ev.kind \in WireKinds
  /\ IF Ev.kind = "release"
     THEN UNCHANGED evars
     ELSE /\ pieces = << >>
          /\ KeyAction(Ev.key)
          /\ cur' >= 0 /\ cur' <= Len(IF idx' >= Len(hist') THEN buf' ELSE hist'[idx' + 1])
(* after an Enter the debugger takes all commands of the submitted line (they are harmless) and a new line starts *)
TBlindDrain ==
  /\ Ev.ev = "bdrain"
  /\ IF pieces # << >>
     THEN pieces' = << >> /\ buf' = << >> /\ cur' = 0 /\ UNCHANGED << hist, idx, submitted >>
     ELSE UNCHANGED evars
TEndPty == /\ Ev.ev = "end" /\ Ev.kind = "pty" /\ pieces = << >>
           /\ Ev.history = hist /\ ~Ev.panicked
           /\ UNCHANGED evars

Step(A) == /\ l <= NRec /\ ~taint /\ A /\ l' = l + 1 /\ UNCHANGED << bad, taint >>
TRegular == Step(TKey) \/ Step(TRead) \/ Step(TEnd) \/ Step(TBlindKey) \/ Step(TBlindWire) \/ Step(TBlindDrain) \/ Step(TEndPty)
TResync == /\ l <= NRec /\ ~taint /\ Ev.ev # "init" /\ ~ENABLED TRegular
           /\ bad' = bad \cup { << l, Ev.ev >> } /\ taint' = TRUE /\ l' = l + 1 /\ UNCHANGED evars
TSkip == /\ l <= NRec /\ taint /\ Ev.ev # "init" /\ l' = l + 1 /\ UNCHANGED << evars, bad, taint >>
Next == TInit \/ TRegular \/ TResync \/ TSkip
Spec == Init /\ [][Next]_vars

Inv == ~taint => (CursorInside /\ IndexInside)
Accepted ==
  /\ PrintT(<< "TRACE-RESULT", IOEnv.TRACE, NRec, TLCGet("stats").diameter - 1 >>)
  /\ TLCGet("stats").diameter = NRec + 1
Done == l = NRec + 1 => PrintT(<< "TRACE-BAD", IOEnv.TRACE, bad >>)
=============================================================================
