SPECIFICATION Spec
CONSTANT N = 3
CONSTANT H = 1
CONSTANT Alnum = {"a", "é"}
CONSTANT Space = {" "}
CONSTANT Punct = {"😀"}
CONSTRAINT Bounded
VIEW View
INVARIANT Inv
INVARIANT SubmitNonBlank
CHECK_DEADLOCK FALSE
