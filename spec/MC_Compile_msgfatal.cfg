SPECIFICATION Spec
CONSTANT Design = "rename"
CONSTANT MsgFatal = TRUE
INVARIANT TypeOK
INVARIANT C08
INVARIANT Litter
INVARIANT NoTouchWithoutAssembly
INVARIANT CanEnd
CHECK_DEADLOCK FALSE
