------------------------------ MODULE Assembler ------------------------------
(***************************************************************************)
(* Declarative specification of the assembler: which programs are accepted *)
(* (C04) and what image an accepted program denotes (C01), over an         *)
(* abstract syntax tree.  The relation between text and tree (layout,      *)
(* spellings) is the renderer's business: the harness renders a tree in    *)
(* many layouts and this module says what every one of them must assemble  *)
(* to.                                                                     *)
(*                                                                         *)
(* A program is a sequence of items, each a record                         *)
(*   k    kind: "orig" "break" | instruction mnemonics | trap aliases |    *)
(*        "fill" "blkw" "stringz"                                          *)
(*   labs sequence of label names written immediately before the item      *)
(*   a, b register numbers (DR/SR, BaseR)                                  *)
(*   m    "r" | "i": third operand of ADD/AND is a register / an immediate *)
(*   c    third register, or a literal as the integer that was WRITTEN     *)
(*        (in -32768 .. 65535), or BR condition bits, or a count           *)
(*   tt   "lab" | "lit": PC-relative operand is a label / a literal offset *)
(*   tn   label name        tv   literal offset as written                 *)
(*   s    string contents (code points) of .stringz, after unescaping      *)
(*                                                                         *)
(* Normative: LC-3 ISA App. A bit layouts; README + src/air.rs comment for *)
(* opcode 0xD; statement C04 for the ranges.                               *)
(* J1 [free]: a literal written as the 16-bit alias of a negative number   *)
(* (value >= 32768 in a signed field) may be accepted or rejected; if      *)
(* accepted the field holds its low bits.                                  *)
(***************************************************************************)
EXTENDS Word, FiniteSets, TLC

PcKinds9  == {"br", "ld", "ldi", "lea", "st", "sti"}
TrapVec   == [getc |-> 32, out |-> 33, puts |-> 34, in |-> 35, putsp |-> 36,
              halt |-> 37, putn |-> 38, reg |-> 39]
TrapNames == DOMAIN TrapVec
StackKinds == {"push", "pop", "call", "rets"}

(* 16-bit reading of a written literal *)
AsWord(v)   == IF v < 0 THEN v + M16 ELSE v
AsSigned(v) == IF v >= 32768 THEN v - M16 ELSE v
IsAlias(v)  == v >= 32768                     \* J1

Size(it) == CASE it.k \in {"orig", "break", "end"} -> 0
              [] it.k = "blkw"    -> it.c
              [] it.k = "stringz" -> Len(it.s) + 1
              [] OTHER            -> 1

(* line (1-based word number) of the first word of each item; Lines[n+1] = total + 1 *)
RECURSIVE LinesFrom(_, _, _)
LinesFrom(ast, i, acc) ==
  IF i > Len(ast) THEN << acc >>
  ELSE << acc >> \o LinesFrom(ast, i + 1, acc + Size(ast[i]))
Lines(ast) == LinesFrom(ast, 1, 1)

Labels(ast)    == UNION { { ast[i].labs[j] : j \in 1 .. Len(ast[i].labs) } : i \in 1 .. Len(ast) }
DefSites(ast, name) == { <<i, j>> \in (1 .. Len(ast)) \X (1 .. 4) :
                            j <= Len(ast[i].labs) /\ ast[i].labs[j] = name }
(* symbol table: label -> line *)
Sym(ast) == LET ln == Lines(ast)
            IN  [name \in Labels(ast) |->
                   ln[(CHOOSE p \in DefSites(ast, name) : TRUE)[1]]]

HasTarget(it) == it.k \in PcKinds9 \cup {"jsr", "call"}
OffBits(it)   == CASE it.k = "jsr" -> 11 [] it.k = "call" -> 10 [] OTHER -> 9

(* the signed PC offset an item asks for *)
Offset(it, line, sym) ==
  IF it.tt = "lab" THEN sym[it.tn] - line - 1 ELSE AsSigned(it.tv)

(***************************************************************************)
(* C04: acceptance                                                         *)
(***************************************************************************)
LitOk(v)        == v >= -32768 /\ v <= 65535      \* what the lexer admits as a literal at all
ImmOk(v, bits)  == LitOk(v) /\ FitsSigned(AsSigned(v), bits)
UnsOk(v, bits)  == LitOk(v) /\ FitsUnsigned(AsWord(v), bits)

ItemOk(it, line, sym, stack) ==
  /\ (it.k \in StackKinds => stack)
  /\ CASE it.k \in {"add", "and"} -> (it.m = "i" => ImmOk(it.c, 5))
       [] it.k \in {"ldr", "str"} -> ImmOk(it.c, 6)
       [] it.k = "trap"           -> UnsOk(it.c, 8)
       [] it.k = "orig"           -> UnsOk(it.c, 16)
       [] it.k = "fill"           -> LitOk(it.c)
       [] it.k = "blkw"           -> it.c >= 0 /\ it.c <= 65535
       [] it.k = "call" /\ it.tt = "lit" -> FALSE    \* README: "usage: call label" - no literal form
       [] HasTarget(it) ->
            IF it.tt = "lab"
            THEN it.tn \in DOMAIN sym /\ FitsSigned(sym[it.tn] - line - 1, OffBits(it))
            ELSE ImmOk(it.tv, OffBits(it))
       [] OTHER -> TRUE

(* [descriptive] a label must be followed by something on which the parser can hang it: *)
(* a statement, .orig or .break (then it marks the next word, possibly one past the end); *)
(* a label directly before .end or the end of the text is an error                         *)
NoDanglingLabel(ast) ==
  \A i \in 1 .. Len(ast) : ast[i].k = "end" => Len(ast[i].labs) = 0

(* `.end` stops the assembler: nothing after it is even looked at *)
UpToEnd(prog) ==
  IF \E i \in 1 .. Len(prog) : prog[i].k = "end"
  THEN SubSeq(prog, 1, CHOOSE i \in 1 .. Len(prog) :
                          prog[i].k = "end" /\ \A j \in 1 .. i - 1 : prog[j].k # "end")
  ELSE prog
(* [descriptive] `.blkw` with count 0 leaves no trace in the token stream: a label written    *)
(* before it belongs to whatever comes next (and is an error if that carries a label of its   *)
(* own, or if nothing comes)                                                                  *)
RECURSIVE Squash(_)
Squash(s) ==
  IF s = << >> THEN << >>
  ELSE LET h == s[1] rest == Squash(Tail(s)) IN
       IF h.k = "blkw" /\ h.c = 0
       THEN IF h.labs = << >> THEN rest
            ELSE IF rest = << >> THEN << [h EXCEPT !.k = "end"] >>
            ELSE << [rest[1] EXCEPT !.labs = h.labs \o @] >> \o Tail(rest)
       ELSE << h >> \o rest
Effective(prog) == Squash(UpToEnd(prog))

AcceptsEff(ast, stack) ==
  LET ln == Lines(ast) IN
  /\ \A i \in 1 .. Len(ast) : Len(ast[i].labs) <= 1
  /\ Cardinality({ i \in 1 .. Len(ast) : ast[i].k = "orig" }) <= 1
  /\ \A name \in Labels(ast) : Cardinality(DefSites(ast, name)) = 1
  /\ NoDanglingLabel(ast)
  /\ LET sym == Sym(ast)
     IN  \A i \in 1 .. Len(ast) : ItemOk(ast[i], ln[i], sym, stack)
Accepts(prog, stack) == AcceptsEff(Effective(prog), stack)

(* J1: does the verdict hinge on an alias literal?  Then either verdict is allowed. *)
UsesAlias(it) ==
  \/ it.k \in {"add", "and"} /\ it.m = "i" /\ IsAlias(it.c)
  \/ it.k \in {"ldr", "str"} /\ IsAlias(it.c)
  \/ HasTarget(it) /\ it.tt = "lit" /\ IsAlias(it.tv)
AnyAlias(ast) == \E i \in 1 .. Len(ast) : UsesAlias(ast[i])
(***************************************************************************)
(* C01: the image                                                          *)
(***************************************************************************)
Origin(prog) == LET ast == Effective(prog) IN
               IF \E i \in 1 .. Len(ast) : ast[i].k = "orig"
               THEN AsWord(ast[CHOOSE i \in 1 .. Len(ast) : ast[i].k = "orig"].c)
               ELSE 12288

(* the origin as declared: -1 if the program has no .orig *)
OrigDecl(prog) == IF \E i \in 1 .. Len(Effective(prog)) : Effective(prog)[i].k = "orig"
                  THEN Origin(prog) ELSE -1

Op3(it) == IF it.m = "i" THEN 32 + Trunc(AsSigned(it.c), 5) ELSE it.c

EncodeInstr(it, line, sym) ==
  LET off(bits) == Trunc(Offset(it, line, sym), bits) IN
  CASE it.k = "add"  -> 4096  + it.a * 512 + it.b * 64 + Op3(it)
    [] it.k = "and"  -> 20480 + it.a * 512 + it.b * 64 + Op3(it)
    [] it.k = "not"  -> 36864 + it.a * 512 + it.b * 64 + 63
    [] it.k = "br"   -> it.c * 512 + off(9)
    [] it.k = "jmp"  -> 49152 + it.b * 64
    [] it.k = "ret"  -> 49600
    [] it.k = "jsr"  -> 18432 + off(11)
    [] it.k = "jsrr" -> 16384 + it.b * 64
    [] it.k = "ld"   -> 8192  + it.a * 512 + off(9)
    [] it.k = "ldi"  -> 40960 + it.a * 512 + off(9)
    [] it.k = "lea"  -> 57344 + it.a * 512 + off(9)
    [] it.k = "st"   -> 12288 + it.a * 512 + off(9)
    [] it.k = "sti"  -> 45056 + it.a * 512 + off(9)
    [] it.k = "ldr"  -> 24576 + it.a * 512 + it.b * 64 + Trunc(AsSigned(it.c), 6)
    [] it.k = "str"  -> 28672 + it.a * 512 + it.b * 64 + Trunc(AsSigned(it.c), 6)
    [] it.k = "rti"  -> 32768
    [] it.k = "trap" -> 61440 + AsWord(it.c)
    [] it.k \in TrapNames -> 61440 + TrapVec[it.k]
    [] it.k = "push" -> 53248 + 1024 + it.b * 64
    [] it.k = "pop"  -> 53248 + it.b * 64
    [] it.k = "call" -> 53248 + 3072 + off(10)
    [] it.k = "rets" -> 53248 + 2048
    [] it.k = "fill" -> AsWord(it.c)

ItemWords(it, line, sym) ==
  CASE it.k \in {"orig", "break", "end"} -> << >>
    [] it.k = "blkw"    -> [j \in 1 .. it.c |-> 0]
    [] it.k = "stringz" -> it.s \o << 0 >>
    [] OTHER            -> << EncodeInstr(it, line, sym) >>

RECURSIVE ImageFrom(_, _, _, _)
ImageFrom(ast, ln, sym, i) ==
  IF i > Len(ast) THEN << >>
  ELSE ItemWords(ast[i], ln[i], sym) \o ImageFrom(ast, ln, sym, i + 1)
(* the statement words (without the origin word) *)
ImageEff(ast) == ImageFrom(ast, Lines(ast), Sym(ast), 1)
Image(prog)   == ImageEff(Effective(prog))

(* .break marks the next statement: address offset = number of words before it (C11) *)
Breaks(prog) == LET ast == Effective(prog)
                    ln == Lines(ast)
               IN  { ln[i] - 1 : i \in { j \in 1 .. Len(ast) : ast[j].k = "break" } }

(* label -> address offset from the origin (C17) *)
LabelOffsets(prog) == LET sym == Sym(Effective(prog)) IN [name \in DOMAIN sym |-> sym[name] - 1]
=============================================================================
