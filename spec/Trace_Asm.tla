------------------------------ MODULE Trace_Asm ------------------------------
(***************************************************************************)
(* Trace validation for C01 / C04 (and the symbol/breakpoint part of C11,  *)
(* C17): each event is one run of the real assembler pipeline              *)
(*   AsmParser::new(src) -> parse -> Air::backpatch -> AsmLine::emit*      *)
(* on the text the harness rendered from a syntax tree, together with what *)
(* came out.  Assembler!Accepts / Image / Origin / Breaks must explain it. *)
(***************************************************************************)
EXTENDS TraceCommon, Assembler, SequencesExt

VARIABLES l, bad
vars == << l, bad >>
Ev == Rec[l]

Init == l = 1 /\ bad = {}

(* long images are recorded with each long run of zero words as one negative number (-length) *)
Unsq(sq) == FlattenSeq([i \in 1 .. Len(sq) |-> IF sq[i] < 0 THEN [j \in 1 .. (0 - sq[i]) |-> 0] ELSE << sq[i] >>])
Squeezed(ws) == \E i \in 1 .. Len(ws) : ws[i] < 0
WordsOf(ws) == IF Squeezed(ws) THEN Unsq(ws) ELSE ws

SymOk(e) == LET lo == LabelOffsets(e.ast)
            IN  /\ { p[1] : p \in { e.syms[k] : k \in 1 .. Len(e.syms) } } = DOMAIN lo
                /\ \A k \in 1 .. Len(e.syms) : e.syms[k][2] = lo[e.syms[k][1]] + 1

Good(e) == /\ e.res = "ok"
           /\ e.orig = OrigDecl(e.ast)
           /\ WordsOf(e.words) = Image(e.ast)
           /\ { e.bps[k] : k \in 1 .. Len(e.bps) } = Breaks(e.ast)
           /\ SymOk(e)

(* C19: when the event also carries the result of assembling the same text on a fresh thread, *)
(* the two must coincide (same verdict, same image, same diagnostic)                           *)
SameAsFresh(e) == "fres" \in DOMAIN e => (e.res = e.fres /\ e.words = e.fwords /\ e.orig = e.forig /\ e.diag = e.fdiag)
(* texts that are not the rendering of a tree (lexer failures) only have a verdict *)
Explains(e) ==
  /\ SameAsFresh(e)
  /\ IF "lexfail" \in DOMAIN e /\ e.lexfail THEN e.res = "err"
     ELSE IF Accepts(e.ast, e.stack)
     THEN Good(e) \/ (AnyAlias(Effective(e.ast)) /\ e.res = "err")      \* J1
     ELSE e.res = "err"

TAsm == /\ l <= NRec /\ Ev.ev = "asm" /\ Explains(Ev)
        /\ l' = l + 1 /\ UNCHANGED bad
TResync == /\ l <= NRec /\ Ev.ev = "asm" /\ ~Explains(Ev)
           /\ bad' = bad \cup {l} /\ l' = l + 1

Next == TAsm \/ TResync
Spec == Init /\ [][Next]_vars

Accepted ==
  /\ PrintT(<< "TRACE-RESULT", IOEnv.TRACE, NRec, TLCGet("stats").diameter - 1 >>)
  /\ TLCGet("stats").diameter = NRec + 1
Done == l = NRec + 1 => PrintT(<< "TRACE-BAD", IOEnv.TRACE, bad >>)
=============================================================================
