------------------------------ MODULE Debugger -------------------------------
(***************************************************************************)
(* The debugger wrapped around the run loop (C09-C13, C15, C16), shaped    *)
(* like RunEnvironment::run + Debugger::next_action: every iteration of    *)
(* the run loop is                                                         *)
(*    DLoopTop   bounds / breakpoint / HALT interrupt check, then one      *)
(*               evaluation of the status machine                          *)
(*    DCmd*      while the status is "wait": one action per command read   *)
(*    DExec      what the run loop does after Action::Proceed (or nothing: *)
(*               HALT and out-of-window PCs are skipped, see Skipping)     *)
(* and, once detached, the plain machine loop of module Machine.           *)
(*                                                                         *)
(* This is the CORRECTED design the properties demand (DESIGN App. B):     *)
(*   J2  `step` on a non-call executes exactly one instruction             *)
(*   J3  `step` on JSR/JSRR/CALL is depth-aware (whole subroutine)         *)
(*   J6  location arithmetic is over the integers, no 16-bit wrap          *)
(*   PC = 0xFFFF is an out-of-window PC like any other while attached      *)
(*   `step out` tests the instruction at the CURRENT pc                    *)
(* Text printed in --minimal mode is part of the model (`text`, `tags`):   *)
(* it is how a user observes pauses, refusals and values.  [descriptive    *)
(* wording of the tags; normative that a refusal changes nothing]          *)
(***************************************************************************)
EXTENDS Machine, TLC, FiniteSets

VARIABLES
  attached,   \* debugger still attached
  status,     \* status machine: [k, ret, depth, count]
  bps,        \* set of breakpoint addresses
  cur,        \* breakpoint that caused the current pause (-1: none)   [descriptive]
  icount,     \* instructions executed since the last command prompt
  phase,      \* "top" | "cmd" | "proceed": where in the loop iteration we are
  initial,    \* machine state right after load (C12: never changes)
  syms,       \* label -> line, from the assembler
  texts,      \* address offset -> statement text, from the assembler (C17)
  tags,       \* lines printed by DLoopTop in this iteration
  text,       \* lines printed by the last command
  iter, nExec, nCmd   \* ghosts for C10 / C16
dvars == << attached, status, bps, cur, icount, phase, initial, syms, texts, tags, text, iter, nExec, nCmd >>
allvars == << mvars, dvars >>

AtHalt  == IsHaltWord(Rd(st.mem, st.pc))
Wait    == [k |-> "wait",   ret |-> 0, depth |-> 0, count |-> 0]
Over(r) == [k |-> "over",   ret |-> r, depth |-> 0, count |-> 0]
Into(c) == [k |-> "into",   ret |-> 0, depth |-> 0, count |-> c]
Cont    == [k |-> "cont",   ret |-> 0, depth |-> 0, count |-> 0]
Finish  == [k |-> "finish", ret |-> 0, depth |-> 0, count |-> 0]

HexCh == << "0", "1", "2", "3", "4", "5", "6", "7", "8", "9", "a", "b", "c", "d", "e", "f" >>
HexStr(v) == "x" \o HexCh[Fld(v, 12, 4) + 1] \o HexCh[Fld(v, 8, 4) + 1]
                 \o HexCh[Fld(v, 4, 4) + 1]  \o HexCh[Fld(v, 0, 4) + 1]
BinCh(b) == IF b = 1 THEN "1" ELSE "0"

(* sorted sequence of a finite set of naturals *)
RECURSIVE SortedSeq(_)
SortedSeq(S) == IF S = {} THEN << >>
                ELSE LET m == CHOOSE x \in S : \A y \in S : x <= y
                     IN  << m >> \o SortedSeq(S \ {m})

RegisterLines(s) ==
  [k \in 1 .. 8 |-> "R" \o ToString(k - 1) \o " " \o HexStr(s.reg[k - 1])]
  \o << "PC " \o HexStr(s.pc),
        "CC " \o BinCh(Bit(s.cc, 2)) \o BinCh(Bit(s.cc, 1)) \o BinCh(Bit(s.cc, 0)) >>

(***************************************************************************)
(* Locations (C13).  All arithmetic over the integers.                     *)
(***************************************************************************)
Loc(ok, a, e) == [ok |-> ok, a |-> a, e |-> e]
Resolve(c) ==
  CASE c.lt = "addr"  -> Loc(TRUE, c.lv, "")
    [] c.lt = "pcoff" ->
         LET a == st.pc + c.lv
         IN  IF InWindow(orig, a) THEN Loc(TRUE, a, "") ELSE Loc(FALSE, 0, "OutOfBounds::Address")
    [] c.lt = "label" ->
         IF c.ln \notin DOMAIN syms THEN Loc(FALSE, 0, "Labels::NotFound")
         ELSE LET a == orig + syms[c.ln] - 1 + c.lv
              IN  IF InWindow(orig, a) THEN Loc(TRUE, a, "") ELSE Loc(FALSE, 0, "OutOfBounds::Address")
(* a location that must lie in user space to be acted upon *)
ResolveUser(c) ==
  LET r == Resolve(c)
  IN  IF r.ok /\ ~InWindow(orig, r.a) THEN Loc(FALSE, 0, "OutOfBounds::Address") ELSE r

(***************************************************************************)
(* eval (C15)                                                              *)
(***************************************************************************)
EvalKinds == {"add", "and", "not", "jmp", "ret", "jsr", "jsrr", "ld", "ldi", "lea", "st", "sti",
              "ldr", "str", "trap", "push", "pop", "call", "rets"} \cup DOMAIN [getc |-> 0, out |-> 0, puts |-> 0, in |-> 0, putsp |-> 0, putn |-> 0, reg |-> 0]
PcRelKinds == {"br", "ld", "ldi", "lea", "st", "sti", "jsr", "call"}
OffBitsOf(k) == CASE k = "jsr" -> 11 [] k = "call" -> 10 [] OTHER -> 9

(* offset that makes the evaluated instruction address the label from the CURRENT pc *)
EvalOffset(it) == ToSigned((syms[it.tn] - (st.pc - orig) + 2 * M16) % M16) - 1

EvalRefusal(it) ==
  CASE it.k = "br"   -> "DisallowedInstruction::Branch"
    [] it.k = "rti"  -> "DisallowedInstruction::Interrupt"
    [] it.k = "halt" -> "DisallowedInstruction::Halt"
    [] it.k = "trap" /\ it.c = 37 -> "DisallowedInstruction::Halt"
    [] it.k = "trap" /\ (it.c < 32 \/ it.c > 39) -> "DisallowedInstruction::UnknownTrap"
    [] OTHER -> ""

(* c.wf: the text is exactly one instruction with operands of the right kind and number and *)
(* in-range literals (the generator knows); what is left to decide depends on the session    *)
EvalWellFormed(c) ==
  LET it == c.it IN
  /\ c.wf
  /\ (it.k \in {"push", "pop", "call", "rets"} => stackOn)
  /\ (it.k \in PcRelKinds /\ it.tt = "lab" => it.tn \in DOMAIN syms)
  /\ (it.k = "call" => it.tt = "lab")

EvalWord(it) ==
  LET lit == IF it.k \in PcRelKinds /\ it.tt = "lab"
             THEN [it EXCEPT !.tt = "lit", !.tv = EvalOffset(it)] ELSE it
  IN  lit

(***************************************************************************)
(* One command.  Result: new machine state, breakpoints, status, printed   *)
(* lines, program output, what happens to the session.                     *)
(***************************************************************************)
CR(s, b, stt, t, o, nin, act) ==
  [st |-> s, bps |-> b, status |-> stt, text |-> t, out |-> o, nin |-> nin, act |-> act]
Same(t)   == CR(st, bps, Wait, t, << >>, 0, "stay")
Resume(s) == IF AtHalt THEN Same(<< "Reached::Halt" >>) ELSE CR(st, bps, s, << >>, << >>, 0, "stay")

(* EncodeInstr comes from Assembler via the instance below *)
Asm == INSTANCE Assembler

CmdResult(c, iv) ==
  CASE c.n = "invalid" -> Same(<< "CommandError" >>)
    [] c.n = "help"    -> Same(<< >>)
    [] c.n = "echo"    -> Same(<< "[" \o c.s \o "]" >>)
    [] c.n = "registers" -> Same(RegisterLines(st))
    [] c.n = "print" ->
         IF c.lt = "reg" THEN Same(<< HexStr(st.reg[c.lv]) >>)
         ELSE LET r == Resolve(c) IN
              IF r.ok THEN Same(<< HexStr(Rd(st.mem, r.a)) >>) ELSE Same(<< r.e >>)
    [] c.n = "move" ->
         IF c.lt = "reg" THEN CR([st EXCEPT !.reg[c.lv] = c.v], bps, Wait, << >>, << >>, 0, "stay")
         ELSE LET r == ResolveUser(c) IN
              IF r.ok THEN CR([st EXCEPT !.mem = Wr(st.mem, r.a, c.v)], bps, Wait, << >>, << >>, 0, "stay")
              ELSE Same(<< r.e >>)
    [] c.n = "goto" ->
         LET r == ResolveUser(c) IN
         IF r.ok THEN CR([st EXCEPT !.pc = r.a], bps, Wait, << >>, << >>, 0, "stay") ELSE Same(<< r.e >>)
    [] c.n = "assembly" ->
         LET r == Resolve(c) IN
         IF ~r.ok THEN Same(<< r.e >>)
         ELSE IF (r.a - orig) \in DOMAIN texts THEN Same(<< texts[r.a - orig] >>) ELSE Same(<< "" >>)
    [] c.n = "breakadd" ->
         LET r == ResolveUser(c) IN
         IF ~r.ok THEN Same(<< r.e >>)
         ELSE IF r.a \in bps THEN Same(<< "Breakpoints::AlreadyExists" >>)
         ELSE CR(st, bps \cup {r.a}, Wait, << >>, << >>, 0, "stay")
    [] c.n = "breakremove" ->
         LET r == ResolveUser(c) IN
         IF ~r.ok THEN Same(<< r.e >>)
         ELSE IF r.a \notin bps THEN Same(<< "Breakpoints::NotFound" >>)
         ELSE CR(st, bps \ {r.a}, Wait, << >>, << >>, 0, "stay")
    [] c.n = "breaklist" ->
         IF bps = {} THEN Same(<< "Breakpoints::Empty" >>)
         ELSE LET ss == SortedSeq(bps) IN Same([k \in 1 .. Len(ss) |-> HexStr(ss[k])])
    [] c.n = "reset" -> CR(initial, bps, Wait, << >>, << >>, 0, "stay")
    [] c.n = "continue" -> Resume(Cont)
    [] c.n = "step" ->
         Resume(IF IsCallWord(Rd(st.mem, st.pc)) THEN Over(Inc16(st.pc)) ELSE Into(0))
    [] c.n = "stepinto" -> Resume(Into((IF c.v < 1 THEN 1 ELSE c.v) - 1))
    [] c.n = "stepout" ->
         IF ~stackOn THEN Same(<< "MissingFeature::Stack" >>) ELSE Resume(Finish)
    [] c.n = "eval" ->
         LET it == c.it IN
         IF ~EvalWellFormed(c) THEN Same(<< "?" >>)
         ELSE IF EvalRefusal(it) # "" THEN Same(<< EvalRefusal(it) >>)
         ELSE IF it.k \in PcRelKinds /\ it.tt = "lab" /\ ~FitsSigned(EvalOffset(it), OffBitsOf(it.k))
              THEN Same(<< "?" >>)
         ELSE LET w == Asm!EncodeInstr(EvalWord(it), 0, << >>)
                  r == Exec(st, w, stackOn, Len(inp) > 0, iv)
              IN  CR(r.st, bps, Wait, << "?" >>, r.out, r.nin,
                     IF r.kind \in {"ok", "halt"} THEN "stay" ELSE r.kind)
    [] c.n \in {"quit", "eof"} -> CR(st, bps, Wait, << >>, << >>, 0, "detach")
    [] c.n = "exit" -> CR(st, bps, Wait, << >>, << >>, 0, "exit")

(* commands that never change machine state or breakpoints (C09, C13) *)
ReadOnlyNames == {"invalid", "help", "echo", "registers", "print", "assembly", "breaklist"}
(* the non-mutating commands of C09 *)
TransparentNames == ReadOnlyNames \cup {"continue", "step", "stepinto", "stepout", "breakadd", "breakremove", "quit", "eof"}

(***************************************************************************)
(* One evaluation of the status machine (the `loop` in next_action).       *)
(***************************************************************************)
Arm(s) ==
  LET pc == st.pc IN
  CASE s.k = "wait" -> [status |-> Wait, phase |-> "cmd", tags |-> << >>]
    [] s.k = "over" ->
         IF pc = s.ret /\ s.depth <= 0
         THEN [status |-> Wait, phase |-> "cmd",
               tags |-> IF icount > 1 THEN << "Reached::SubroutineEnd" >> ELSE << >>]
         ELSE [status |-> s, phase |-> "proceed", tags |-> << >>]
    [] s.k = "into" ->
         IF s.count > 0 THEN [status |-> Into(s.count - 1), phase |-> "proceed", tags |-> << >>]
         ELSE [status |-> Wait, phase |-> "proceed", tags |-> << >>]
    [] s.k = "cont" -> [status |-> s, phase |-> "proceed", tags |-> << >>]
    [] s.k = "finish" ->
         IF IsReturnWord(Rd(st.mem, pc))
         THEN [status |-> Wait, phase |-> "proceed", tags |-> << "Reached::SubroutineEnd" >>]
         ELSE [status |-> s, phase |-> "proceed", tags |-> << >>]

(***************************************************************************)
(* Actions                                                                 *)
(***************************************************************************)
(* After Proceed the run loop does not execute HALT (never, while attached) nor an instruction  *)
(* outside the window: it goes straight back to the top of the loop.  That silent step is    *)
(* folded into DLoopTop.                                                                      *)
Skipping == phase = "proceed" /\ (AtHalt \/ ~InWindow(orig, st.pc))
DLoopTop ==
  /\ attached /\ (phase = "top" \/ Skipping) /\ run = "running"
  /\ LET pc      == st.pc
         oob     == ~InWindow(orig, pc)
         bpHit   == pc \in bps /\ cur # pc
         haltHit == ~bpHit /\ IsHaltWord(Rd(st.mem, pc))
         s1      == IF oob \/ bpHit \/ haltHit THEN Wait ELSE status
         t1      == (IF oob THEN << "OutOfBounds::ProgramCounter" >> ELSE << >>)
                    \o (IF bpHit THEN << "Reached::Breakpoint" >> ELSE << >>)
                    \o (IF haltHit THEN << "Reached::Halt" >> ELSE << >>)
         a       == Arm(s1)
     IN  /\ status' = a.status /\ phase' = a.phase /\ tags' = t1 \o a.tags
         /\ cur' = IF bpHit THEN pc ELSE IF haltHit THEN cur ELSE -1
  /\ iter' = iter + 1
  /\ UNCHANGED << mvars, attached, bps, icount, initial, syms, texts, text, nExec, nCmd >>

(* a command is read and executed while waiting *)
DCmd(c, iv) ==
  /\ attached /\ phase = "cmd" /\ run = "running"
  /\ LET r == CmdResult(c, iv) IN
     /\ (r.nin = 1 => InputOk(Head(inp), iv))
     /\ st' = r.st /\ bps' = r.bps /\ text' = r.text /\ lastOut' = r.out
     /\ inp' = SubSeq(inp, r.nin + 1, Len(inp))
     /\ CASE r.act = "stay" ->
               (* a resuming command is followed at once by one evaluation of the status machine;
                  it sees the machine state the command left (r.st = st for resuming commands) *)
               LET a == Arm(r.status) IN
               /\ status' = a.status /\ phase' = a.phase /\ tags' = a.tags
               /\ attached' = TRUE /\ run' = "running"
          [] r.act = "detach" -> /\ attached' = FALSE /\ phase' = "top" /\ status' = Wait /\ run' = "running" /\ tags' = << >>
          [] r.act = "exit"   -> /\ run' = "done" /\ tags' = << >> /\ UNCHANGED << attached, phase, status >>
          [] OTHER            -> /\ run' = RunOf(r.act) /\ tags' = << >> /\ UNCHANGED << attached, phase, status >>
  /\ icount' = 0 /\ nCmd' = nCmd + 1
  /\ UNCHANGED << orig, stackOn, cur, initial, syms, texts, iter, nExec >>

DepthAfter(s, w) ==
  IF s.k # "over" THEN s
  ELSE [s EXCEPT !.depth = IF IsCallWord(w) THEN @ + 1 ELSE IF IsReturnWord(w) THEN @ - 1 ELSE @]

DExec ==
  /\ attached /\ phase = "proceed" /\ run = "running"
  /\ ~AtHalt /\ InWindow(orig, st.pc)
  /\ \E iv \in InVals :
       LET r == StepResult(iv) IN
       /\ st' = r.st /\ inp' = SubSeq(inp, r.nin + 1, Len(inp))
       /\ run' = RunOf(r.kind) /\ lastOut' = r.out
  /\ status' = DepthAfter(status, Fetched)
  /\ cur' = -1 /\ icount' = icount + 1 /\ nExec' = nExec + 1 /\ phase' = "top"
  /\ UNCHANGED << orig, stackOn, attached, bps, initial, syms, texts, tags, text, iter, nCmd >>

(* detached: the plain machine loop *)
DPlainStep ==
  /\ ~attached /\ run = "running"
  /\ MStep
  /\ iter' = iter + 1 /\ nExec' = nExec + 1
  /\ UNCHANGED << attached, status, bps, cur, icount, phase, initial, syms, texts, tags, text, nCmd >>
DPlainStop ==
  /\ ~attached /\ run = "running"
  /\ (MStopAtFFFF \/ MException)
  /\ iter' = iter + 1
  /\ UNCHANGED << attached, status, bps, cur, icount, phase, initial, syms, texts, tags, text, nCmd, nExec >>

(***************************************************************************)
(* Properties stated on this model                                         *)
(***************************************************************************)
(* C16: every loop iteration is paid for by an executed instruction or a consumed command *)
ProgressBound == iter <= nExec + nCmd + 1
(* C12: nothing alters the saved initial state *)
InitialFrozen == [][initial' = initial]_allvars
(* C11: execution never runs THROUGH a breakpoint: an instruction at a breakpoint executes   *)
(* only right after a pause on that breakpoint, or as the first instruction after a prompt   *)
(* (the user was paused at that address - e.g. by `goto` - and resumed from there)           *)
BreakpointsRespected ==
  [][ (attached /\ nExec' # nExec /\ st.pc \in bps) => (cur = st.pc \/ icount = 0) ]_allvars
(* C10/C09: HALT is never executed while attached *)
NoHaltWhileAttached ==
  [][ (attached /\ nExec' # nExec) => ~IsHaltWord(Rd(st.mem, st.pc)) ]_allvars
=============================================================================
