------------------------------ MODULE Trace_Tok -------------------------------
(***************************************************************************)
(* C05 (and C04's "everything else is rejected"): every recorded attempt   *)
(* to assemble a text must end in an image or a diagnostic - never a       *)
(* panic, a hang (the harness would not return) or a diagnostic that fails *)
(* to render or points outside the source.  For texts built from a token   *)
(* kind sequence the verdict must also be the one TokModel gives.          *)
(***************************************************************************)
EXTENDS TraceCommon, TokModel

VARIABLES l, bad
vars == << l, bad >>
Ev == Rec[l]
Init == l = 1 /\ bad = {}

Total(e) == /\ e.res \in {"ok", "err"}
            /\ (e.res = "err" => e.diag_ok /\ e.spans_ok)
Explains(e) ==
  /\ Total(e)
  /\ (e.ev = "tok" => LET r == TokResult(e.toks) IN
                         /\ (e.res = "ok") = r.ok
                         /\ (~r.ok => e.code = r.code))

TOk  == /\ l <= NRec /\ Explains(Ev) /\ l' = l + 1 /\ UNCHANGED bad
TBad == /\ l <= NRec /\ ~Explains(Ev) /\ bad' = bad \cup { << l, Ev.res >> } /\ l' = l + 1
Next == TOk \/ TBad
Spec == Init /\ [][Next]_vars
Accepted ==
  /\ PrintT(<< "TRACE-RESULT", IOEnv.TRACE, NRec, TLCGet("stats").diameter - 1 >>)
  /\ TLCGet("stats").diameter = NRec + 1
Done == l = NRec + 1 => PrintT(<< "TRACE-BAD", IOEnv.TRACE, bad >>)
=============================================================================
