SPECIFICATION Spec
CONSTANT Design = "rename"
CONSTANT MsgFatal = FALSE
INVARIANT SomeSuccess
CHECK_DEADLOCK FALSE
