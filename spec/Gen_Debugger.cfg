SPECIFICATION GSpec
CONSTANT K = 2
CONSTANT MUTATING = TRUE
CONSTRAINT Bounded
INVARIANT Emit
CHECK_DEADLOCK FALSE
