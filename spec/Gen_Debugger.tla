---------------------------- MODULE Gen_Debugger -----------------------------
(***************************************************************************)
(* Direction (B), specification -> implementation: TLC explores the        *)
(* bounded debugger model of MC_Debugger exhaustively and prints every     *)
(* finished behaviour as one JSON line: program (syntax tree), feature     *)
(* flag, the whole command script, and what the specification says the     *)
(* session ends in (registers, PC, CC, non-zero memory, breakpoints,       *)
(* number of instructions executed, lines printed by the last command).    *)
(* `harness replay debug` assembles the tree with the real assembler, runs *)
(* the script through the real debugger and compares.                      *)
(***************************************************************************)
EXTENDS MC_Debugger, Json

VARIABLE script0
gvars == << vars, script0 >>

GInit == Init /\ script0 = script
GNext == Next /\ UNCHANGED script0
GSpec == GInit /\ [][GNext]_gvars

MemPairs(m) == LET d == { a \in DOMAIN m : m[a] # 0 } IN [a \in d |-> m[a]]
Behaviour ==
  [prog   |-> prog,
   ast    |-> Progs[prog].ast,
   stack  |-> Progs[prog].stack,
   script |-> script0,
   reg    |-> [k \in 1 .. 8 |-> st.reg[k - 1]],
   pc     |-> st.pc,
   cc     |-> st.cc,
   mem    |-> MemPairs(st.mem),
   bps    |-> SortedSeq(bps),
   nexec  |-> nExec,
   run    |-> run]

(* fires once per distinct finished state; the bound keeps mutated programs finite *)
Emit == (run # "running") => PrintT(<< "REPLAY", ToJson(Behaviour) >>)
=============================================================================
