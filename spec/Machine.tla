------------------------------- MODULE Machine -------------------------------
(***************************************************************************)
(* The lace virtual machine from load to stop (C03), shaped like           *)
(* RunEnvironment::from_raw and the loop of RunEnvironment::run: one       *)
(* action per branch of the loop, in the order the code tests them.        *)
(*                                                                         *)
(* Named deviations from the ISA (endorsed by the property statements):    *)
(*   D2 after load CC is "none" and R7 = 0xFDFF                            *)
(*   D3 HALT sets PC = 0xFFFF; the loop ends when it sees PC = 0xFFFF      *)
(*   D4 an implicit HALT word follows the image                            *)
(*   D5 the executable window is [origin, 0xFE00)                          *)
(***************************************************************************)
EXTENDS ISA, MachineDefs

VARIABLES
  st,       \* machine state record (see ISA)
  orig,     \* origin of the loaded image
  stackOn,  \* feature flag
  inp,      \* unread input bytes
  run,      \* "running" | "done" (exit 0) | "exc" (exit 0xEE) | "exit1" | "unspec"
  lastOut   \* text printed by the last step (not accumulated: keeps states small)
mvars == << st, orig, stackOn, inp, run, lastOut >>

MInit(o, words, stk, input) ==
  /\ st = LoadState(o, words) /\ orig = o /\ stackOn = stk /\ inp = input
  /\ run = "running" /\ lastOut = << >>

Fetched == Rd(st.mem, st.pc)

(* values an available input byte may deliver (D7) *)
InVals == IF Len(inp) > 0
          THEN (IF Head(inp) < 128 THEN {Head(inp)} ELSE {Head(inp), 65533})
          ELSE {0}

RunOf(kind) == CASE kind \in {"ok", "halt"}    -> "running"
                 [] kind = "exc"               -> "exc"
                 [] kind \in {"exit1", "eof"}  -> "exit1"
                 [] OTHER                      -> "unspec"

(* the loop tests PC = 0xFFFF first ... *)
MStopAtFFFF ==
  /\ run = "running" /\ st.pc = 65535
  /\ run' = "done" /\ lastOut' = << >>
  /\ UNCHANGED << st, orig, stackOn, inp >>

(* ... then the bounds of the executable window ... *)
MException ==
  /\ run = "running" /\ st.pc # 65535 /\ ~InWindow(orig, st.pc)
  /\ run' = "exc" /\ lastOut' = << >>
  /\ UNCHANGED << st, orig, stackOn, inp >>

(* ... then fetches, increments the PC and executes *)
StepResult(iv) ==
  Exec([st EXCEPT !.pc = Inc16(st.pc)], Fetched, stackOn, Len(inp) > 0, iv)

MStep ==
  /\ run = "running" /\ InWindow(orig, st.pc)
  /\ \E iv \in InVals :
       LET r == StepResult(iv) IN
       /\ st' = r.st
       /\ inp' = SubSeq(inp, r.nin + 1, Len(inp))
       /\ run' = RunOf(r.kind)
       /\ lastOut' = r.out
  /\ UNCHANGED << orig, stackOn >>

MNext == MStopAtFFFF \/ MException \/ MStep

(* no instruction is ever fetched from outside [origin, 0xFE00) *)
FetchInBounds == [][ st' # st => InWindow(orig, st.pc) ]_mvars
=============================================================================
