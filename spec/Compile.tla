------------------------------ MODULE Compile -------------------------------
(***************************************************************************)
(* `lace compile src dest` as a protocol on the file system (C08): which   *)
(* system calls may follow which, what each does to the destination, and   *)
(* how the command may end.  One event per observable step of              *)
(* src/main.rs (Command::Compile):                                         *)
(*                                                                         *)
(*   msg        a progress message is printed on stdout  (ok / fail)       *)
(*   open_tmp   the temporary file next to the destination is created      *)
(*   write_tmp  a write() to it                                            *)
(*   rename     rename(tmp, dest)                                          *)
(*   unlink_tmp the temporary file is removed after a failure              *)
(*   open_dest  the destination itself is created/truncated (only a        *)
(*              special file - a device - is written in place)             *)
(*   write_dest a write() to it                                            *)
(*   exit       the process ends with a status                             *)
(*                                                                         *)
(* Every step that can fail is an event with ok \in BOOLEAN: faults are    *)
(* ordinary nondeterminism, so TLC explores a failure at every point.      *)
(* Step(s, e) is the single source of truth: MC_Compile explores all event *)
(* sequences it allows, and Trace_Cli replays the system calls strace      *)
(* recorded from the real binary through the same function.                *)
(*                                                                         *)
(* Design = "rename"  : the code as repaired (temporary file + rename)     *)
(* Design = "inplace" : the code before fix 1a368e8 (create, then write) - *)
(*                      kept so that TLC can show the flaw (MC_Compile_old)*)
(* MsgFatal           : a message that cannot be printed ends the process  *)
(*                      (println! panics) - the code before the second fix *)
(***************************************************************************)
EXTENDS Integers, Sequences

CONSTANTS Design, MsgFatal

(* kind: "regular" (absent or a regular file), "special" (a device), "nodir" (parent directory missing) *)
(* dest: "absent" | "old" | "empty" | "partial" | "new"      tmp: "none" | "empty" | "data"            *)
Start(kind, dest0, asmok) ==
  [ph |-> "start", kind |-> kind, dest0 |-> dest0, dest |-> dest0, tmp |-> "none", code |-> -1, asmok |-> asmok]

Rejected == [ph |-> "rejected", kind |-> "", dest0 |-> "", dest |-> "", tmp |-> "", code |-> -1, asmok |-> FALSE]

Ev(op, ok)  == [op |-> op, ok |-> ok, code |-> 0]
ExitEv(c)   == [op |-> "exit", ok |-> TRUE, code |-> c]

InPlace(s) == Design = "inplace" \/ s.kind = "special"

(* a failed message: fatal (panic, status 101, from wherever the run is) or ignored *)
AfterMsg(s, ok) ==
  IF ok \/ ~MsgFatal THEN s ELSE [s EXCEPT !.ph = "panicking"]

Step(s, e) ==
  CASE s.ph = "rejected" -> Rejected
    [] s.ph = "exited"   -> Rejected                                          \* nothing happens after the end
    [] e.op = "msg"      -> IF s.ph \in {"start", "done", "inplace"} THEN AfterMsg(s, e.ok) ELSE Rejected
    [] s.ph = "panicking" -> IF e.op = "exit" /\ e.code = 101 THEN [s EXCEPT !.ph = "exited", !.code = 101] ELSE Rejected
    (* assembling: nothing on the file system; a source that does not assemble ends the run here *)
    [] s.ph = "start" /\ e.op = "exit" ->
         IF ~s.asmok /\ e.code # 0 THEN [s EXCEPT !.ph = "exited", !.code = e.code] ELSE Rejected
    [] s.ph = "start" /\ e.op = "open_tmp" /\ s.asmok /\ ~InPlace(s) ->
         IF e.ok /\ s.kind # "nodir" THEN [s EXCEPT !.ph = "tmp", !.tmp = "empty"]
         ELSE IF ~e.ok THEN [s EXCEPT !.ph = "cleanup"] ELSE Rejected
    [] s.ph = "start" /\ e.op = "open_dest" /\ s.asmok /\ InPlace(s) ->
         IF e.ok /\ s.kind # "nodir"
         THEN [s EXCEPT !.ph = "inplace", !.dest = IF s.kind = "special" THEN s.dest ELSE "empty"]   \* O_TRUNC
         ELSE IF ~e.ok THEN [s EXCEPT !.ph = "failing"] ELSE Rejected
    (* temporary file *)
    [] s.ph = "tmp" /\ e.op = "write_tmp" ->
         IF e.ok THEN [s EXCEPT !.tmp = "data"] ELSE [s EXCEPT !.ph = "cleanup"]
    [] s.ph = "tmp" /\ e.op = "rename" /\ s.tmp = "data" ->
         IF e.ok THEN [s EXCEPT !.ph = "done", !.dest = "new", !.tmp = "none"] ELSE [s EXCEPT !.ph = "cleanup"]
    [] s.ph = "cleanup" /\ e.op = "unlink_tmp" -> [s EXCEPT !.ph = "failing", !.tmp = "none"]
    (* in place *)
    [] s.ph = "inplace" /\ e.op = "write_dest" ->
         IF e.ok THEN [s EXCEPT !.dest = IF s.kind = "special" THEN s.dest ELSE "partial"]
         ELSE [s EXCEPT !.ph = "failing"]
    [] s.ph = "inplace" /\ e.op = "exit" /\ e.code = 0 ->
         IF s.dest = "partial" \/ s.kind = "special"
         THEN [s EXCEPT !.ph = "exited", !.code = 0, !.dest = IF s.kind = "special" THEN s.dest ELSE "new"]
         ELSE Rejected
    (* the end *)
    [] s.ph = "failing" /\ e.op = "exit" -> IF e.code \notin {0, 101} THEN [s EXCEPT !.ph = "exited", !.code = e.code] ELSE Rejected
    [] s.ph = "done" /\ e.op = "exit"    -> IF e.code = 0 THEN [s EXCEPT !.ph = "exited", !.code = 0] ELSE Rejected
    [] OTHER -> Rejected

RECURSIVE Run(_, _)
Run(s, es) == IF es = << >> THEN s ELSE Run(Step(s, es[1]), Tail(es))

(* C08 on a finished run *)
AllOrNothing(s) ==
  s.ph = "exited" =>
    /\ (s.code = 0 => s.kind = "special" \/ s.dest = "new")
    /\ (s.code # 0 => s.dest = s.dest0)
NoLitter(s) == s.ph = "exited" => s.tmp = "none"
=============================================================================
