----------------------------- MODULE MC_Compile -----------------------------
(***************************************************************************)
(* Every sequence of events Compile!Step allows - a fault at every step    *)
(* that can fail - for every kind of destination.  C08 is AllOrNothing on  *)
(* every finished run; NoLitter says the temporary file never survives.    *)
(* MC_Compile.cfg          the code as repaired: both hold                 *)
(* MC_Compile_old.cfg      create-then-write (before fix 1a368e8): TLC     *)
(*                         must find the emptied destination               *)
(* MC_Compile_msgfatal.cfg a message that cannot be printed is fatal       *)
(*                         (println!): TLC must find exit 101 after rename *)
(***************************************************************************)
EXTENDS Compile, TLC

VARIABLE s

Kinds == { << "regular", "absent" >>, << "regular", "old" >>, << "special", "old" >>, << "nodir", "absent" >> }
Events == { Ev(op, ok) : op \in {"msg", "open_tmp", "write_tmp", "rename", "unlink_tmp", "open_dest", "write_dest"}, ok \in BOOLEAN }
          \cup { ExitEv(c) : c \in {0, 1, 101} }

Init == \E k \in Kinds, a \in BOOLEAN : s = Start(k[1], k[2], a)
Next == \E e \in Events : Step(s, e) # Rejected /\ s' = Step(s, e)
Spec == Init /\ [][Next]_s

TypeOK == /\ s.ph \in {"start", "tmp", "cleanup", "inplace", "failing", "panicking", "done", "exited"}
          /\ s.dest \in {"absent", "old", "empty", "partial", "new"}
          /\ s.tmp \in {"none", "empty", "data"}
C08        == AllOrNothing(s)
Litter     == NoLitter(s)
(* a source that does not assemble never reaches the file system *)
NoTouchWithoutAssembly == ~s.asmok => s.dest = s.dest0 /\ s.tmp = "none"
(* every run can still end: from every reachable state some event is possible or the run is over *)
CanEnd == s.ph = "exited" \/ \E e \in Events : Step(s, e) # Rejected
(* a successful run of a writable regular destination exists (the model is not vacuous) *)
SomeSuccess == ~(s.ph = "exited" /\ s.code = 0 /\ s.dest = "new")
=============================================================================
