SPECIFICATION Spec
INVARIANT UsesLabelAddress
INVARIANT RangeRule
CHECK_DEADLOCK FALSE
