SPECIFICATION GSpec
CONSTANT K = 3
CONSTANT MUTATING = FALSE
INVARIANT Emit
CHECK_DEADLOCK FALSE
