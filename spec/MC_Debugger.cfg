SPECIFICATION Spec
CONSTANT K = 2
CONSTANT MUTATING = TRUE
INVARIANT ProgressBound
INVARIANT ResetRestores
INVARIANT StepCounts
INVARIANT StepNoOvershoot
INVARIANT Confined
INVARIANT BpsInUserSpace
PROPERTY BreakpointsRespected
PROPERTY NoHaltWhileAttached
PROPERTY InitialFrozen
CHECK_DEADLOCK FALSE
CONSTRAINT Bounded
