----------------------------- MODULE MC_CmdLang ------------------------------
(***************************************************************************)
(* C14 part A: every token of up to L characters over the alphabet of      *)
(* signs, radix prefixes, digits, hex letters, a non-digit, '^', 'r', '_'  *)
(* is parsed; the argument kinds register / PC offset / integer are        *)
(* mutually exclusive, the naive pre-check never contradicts the parse,    *)
(* values are in range for their use, and every transport delivers the     *)
(* same command list for every script of up to S characters.               *)
(***************************************************************************)
EXTENDS CmdLang

CONSTANTS L, S

Alphabet == {"+", "-", "#", "x", "o", "b", "0", "1", "7", "9", "a", "f", "g", "^", "r", "_"}
ScriptAlphabet == {"a", " ", ";", "\n"}

VARIABLES tok, script
vars == << tok, script >>

Strings(A, n) == UNION { [1 .. k -> A] : k \in 0 .. n }

Init == \/ (tok \in Strings(Alphabet, L) /\ script = << >>)
        \/ (tok = << >> /\ script \in Strings(ScriptAlphabet, S))
Next == UNCHANGED vars
Spec == Init /\ [][Next]_vars

Exclusive == Cardinality(Kinds(tok) \ {"label"}) <= 1
Naive == NaiveSound(tok)
Ranges ==
  /\ (ParseValue(tok).k = "int" => ParseValue(tok).v \in 0 .. 65535)
  /\ LET m == ParseMemoryLocation(tok) IN
       /\ (m.k = "addr" => m.v \in 0 .. 65535)
       /\ (m.k \in {"pcoff", "label"} => m.v \in -32768 .. 32767)
  /\ LET m == ParseLocation(tok) IN (m.k = "reg" => m.v \in 0 .. 7)
(* registers are never accepted where only memory is meant, and vice versa a register-shaped token is a register *)
RegisterRule ==
  ParseRegister(tok).k = "int" => /\ ParseLocation(tok).k = "reg"
                                   /\ ParseMemoryLocation(tok).k = "err"
(* splitting a script between the argument and stdin at a command boundary delivers the same commands *)
Boundaries == { i \in 0 .. Len(script) : i = 0 \/ i = Len(script) \/ script[i] \in {";", "\n"} }
TransportEq ==
  \A i \in Boundaries :
     Deliver(SubSeq(script, 1, i)) \o Deliver(SubSeq(script, i + 1, Len(script))) = Deliver(script)
=============================================================================
