------------------------------ MODULE MC_Machine ------------------------------
(***************************************************************************)
(* Bounded model for C03 (part A): every image of up to N words over a     *)
(* representative word set, at boundary origins, run for up to BOUND loop  *)
(* iterations.                                                             *)
(*   LoadOK         right after load: words at the origin, implicit HALT   *)
(*                  behind them, PC = origin, R0-R6 = 0, R7 = 0xFDFF,      *)
(*                  CC none                                                *)
(*   FetchInBounds  no instruction is fetched outside [origin, 0xFE00)     *)
(*   StopKinds      a run ends in exactly one of: normal end (PC = 0xFFFF),*)
(*                  exception, exit 1, (RTI: unspecified)                  *)
(*   NormalEnd      normal end happens exactly when PC = 0xFFFF            *)
(***************************************************************************)
EXTENDS Machine, TLC

CONSTANTS N, BOUND

VARIABLES img, o, steps
vars == << mvars, img, o, steps >>

Words == { 0, 4095, 3585, 4129, 4159, 20512, 8193, 12289, 8703, 18433, 16448, 24640, 28736, 36927,
           40960, 45057, 49152, 49600, 54336, 53312, 56321, 55296, 57855, 61477, 61473, 61488, 32768 }
Origins == { 0, 12288, 65021, 65022, 65023, 65024, 65534, 65535 }

Images == UNION { [1 .. n -> Words] : n \in 0 .. N }

Init == /\ img \in Images /\ o \in Origins
        /\ LoaderAccepts(o, Len(img))
        /\ MInit(o, img, TRUE, << 65, 200 >>)
        /\ steps = 0

Next == /\ steps < BOUND
        /\ MNext
        /\ steps' = steps + 1
        /\ UNCHANGED << img, o >>
Spec == Init /\ [][Next]_vars

LoadOK == steps = 0 =>
  /\ st.pc = o /\ st.cc = 0 /\ st.reg[7] = 65023 /\ \A k \in 0 .. 6 : st.reg[k] = 0
  /\ \A i \in 1 .. Len(img) : Rd(st.mem, o + i - 1) = img[i]
  /\ Rd(st.mem, o + Len(img)) = HaltWord
  /\ \A a \in DOMAIN st.mem : a >= o /\ a <= o + Len(img)

StopKinds == run \in {"running", "done", "exc", "exit1", "unspec"}
NormalEnd == run = "done" => st.pc = 65535
ExcMeans  == [][ run' = "exc" /\ run = "running" =>
                 \/ (st.pc # 65535 /\ ~InWindow(orig, st.pc) /\ st' = st)
                 \/ (InWindow(orig, st.pc) /\ Opcode(Fetched) = 15 /\ st' = [st EXCEPT !.pc = Inc16(st.pc)]) ]_vars
TypeOK == /\ st.pc \in W /\ st.cc \in {0, 1, 2, 4} /\ \A k \in 0 .. 7 : st.reg[k] \in W
          /\ \A a \in DOMAIN st.mem : a \in W /\ st.mem[a] \in W
=============================================================================
