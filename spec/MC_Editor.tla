------------------------------ MODULE MC_Editor -------------------------------
(***************************************************************************)
(* C20 part A: ALL key sequences (of any length) that keep the edited line *)
(* within N characters and the history within H entries, from empty and    *)
(* non-empty history: the cursor stays inside the focused line, the        *)
(* history index inside the list, every key is defined in every state.     *)
(***************************************************************************)
EXTENDS Editor, TLC

CONSTANTS N, H

Keys == {"Enter", "Backspace", "Delete", "Left", "Right", "CtrlLeft", "CtrlRight", "Up", "Down"}

Init == /\ buf = << >> /\ cur = 0 /\ pieces = << >> /\ submitted = << >>
        /\ hist \in { << >>, << << "a", " ", "é" >> >>, << << "a", "+" >>, << " ", "😀", "a" >> >> }
        /\ idx = Len(hist)

(* after a submission the next read starts a fresh line at once *)
Submit == /\ KEnterSubmit
          /\ TRUE
NextLine == /\ submitted # << >> /\ buf = submitted /\ idx = Len(hist)
            /\ buf' = << >> /\ cur' = 0 /\ submitted' = << >> /\ pieces' = << >> /\ UNCHANGED << hist, idx >>

Next ==
  \/ \E c \in Chars : KChar(c)
  \/ KBackspace \/ KDelete \/ KLeft \/ KRight \/ KCtrlLeft \/ KCtrlRight \/ KUp \/ KDown
  \/ KEnterEmpty
  \/ Submit
  \/ NextLine
Spec == Init /\ [][Next]_evars

Bounded == Len(buf) <= N /\ Len(hist) <= H /\ \A i \in 1 .. Len(hist) : Len(hist[i]) <= N
View == << buf, cur, hist, idx, submitted # << >> >>

Inv == CursorInside /\ IndexInside
(* what is submitted is never blank, and is what the focused line held *)
SubmitNonBlank == submitted # << >> => ~Blank(submitted)
=============================================================================
