----------------------------- MODULE MachineDefs ------------------------------
(* Variable-free definitions of the machine: memory window, loader rule, load state. *)
EXTENDS ISA

UserEnd  == 65024          \* 0xFE00
HaltWord == 61477          \* 0xF025
DefaultOrigin == 12288     \* 0x3000

(* an image of n words at origin o can be loaded iff it and the sentinel fit below 2^16 *)
LoaderAccepts(o, n) == o + n + 1 <= 65536

LoadState(o, words) ==
  [reg |-> [k \in 0 .. 7 |-> IF k = 7 THEN UserEnd - 1 ELSE 0],
   pc  |-> o,
   cc  |-> 0,
   mem |-> [a \in o .. (o + Len(words)) |->
              IF a - o < Len(words) THEN words[a - o + 1] ELSE HaltWord]]

InWindow(o, pc) == pc >= o /\ pc < UserEnd
=============================================================================
