-------------------------------- MODULE ISA ---------------------------------
(***************************************************************************)
(* The LC-3 instruction set as lace implements it, as a pure function      *)
(* from (machine state, instruction word) to (machine state, outcome).     *)
(*                                                                         *)
(* Normative sources: LC-3 ISA (Patt & Patel 2nd ed., App. A: LEA sets the *)
(* condition codes), README (stack extension PUSH/POP/CALL/RETS on opcode  *)
(* 0xD, traps PUTN x26 / REG x27), src/air.rs (0xD bit layout).            *)
(*                                                                         *)
(* Named deviations from the ISA that the property statements endorse:     *)
(*   D1 traps are native services: no R7 linkage, no vector table          *)
(*   D3 HALT sets PC = 0xFFFF                                              *)
(*   D6 IN prints no prompt                                                *)
(*   D7 a non-ASCII input byte delivers either the byte or U+FFFD  [free]  *)
(*   D8 RTI is outside every claim: outcome "unspec"                       *)
(*   D9 all observation is in --minimal mode, whose output writer strips   *)
(*      ANSI escape sequences from every write; characters are written one *)
(*      per write, so a character x1B never reaches the output             *)
(*                                                                         *)
(* A machine state is a record                                             *)
(*    [reg : [0..7 -> W], pc : W, cc : {0,1,2,4}, mem : sparse memory]     *)
(* where a sparse memory is a function with a finite domain of addresses;  *)
(* every address outside the domain holds 0.  `pc` passed to Exec is the   *)
(* already incremented program counter (the run loop increments before     *)
(* executing).                                                             *)
(***************************************************************************)
EXTENDS Word

Rd(m, a)    == IF a \in DOMAIN m THEN m[a] ELSE 0
Wr(m, a, v) == [x \in (DOMAIN m) \cup {a} |-> IF x = a THEN v ELSE m[x]]
(* two sparse memories denote the same 64 Ki words *)
MemEq(m1, m2) == \A a \in (DOMAIN m1) \cup (DOMAIN m2) : Rd(m1, a) = Rd(m2, a)

Opcode(i) == Fld(i, 12, 4)
DR(i)     == Fld(i, 9, 3)
SR1(i)    == Fld(i, 6, 3)       \* also BaseR
SR2(i)    == Fld(i, 0, 3)

IsHaltWord(i)   == Opcode(i) = 15 /\ i % 256 = 37            \* TRAP x25
IsReturnWord(i) == \/ (Opcode(i) = 12 /\ SR1(i) = 7)         \* RET = JMP R7
                   \/ (Opcode(i) = 13 /\ Fld(i, 10, 2) = 2)  \* RETS
(* instructions that enter a subroutine: JSR, JSRR, CALL *)
IsCallWord(i)   == \/ Opcode(i) = 4
                   \/ (Opcode(i) = 13 /\ Fld(i, 10, 2) = 3)

Res(s, kind, out, nin) == [st |-> s, kind |-> kind, out |-> out, nin |-> nin]
Ok(s) == Res(s, "ok", <<>>, 0)

SetR(s, k, v)   == [s EXCEPT !.reg[k] = v]
SetRCC(s, k, v) == [s EXCEPT !.reg[k] = v, !.cc = CCof(v)]

(* ---- trap service text ---- *)
Visible(c)  == c # 27                                        \* D9
Shown(text) == SelectSeq(text, Visible)
RECURSIVE PutsFrom(_, _, _)
PutsFrom(m, a, n) ==
  IF n = 0 THEN <<>>
  ELSE LET c == Rd(m, a) % 256
       IN  IF c = 0 THEN <<>> ELSE <<c>> \o PutsFrom(m, Inc16(a), n - 1)

(* J5: bits [7:0] first, then bits [15:8]  (ISA) *)
RECURSIVE PutspFrom(_, _, _)
PutspFrom(m, a, n) ==
  IF n = 0 THEN <<>>
  ELSE LET w  == Rd(m, a)
           lo == w % 256
           hi == w \div 256
       IN  IF lo = 0 THEN <<>>
           ELSE IF hi = 0 THEN <<lo>>
           ELSE <<lo, hi>> \o PutspFrom(m, Inc16(a), n - 1)

(* minimal-mode text of the REG trap: 8 registers, PC, CC *)
RECURSIVE RegLines(_, _)
RegLines(r, k) ==
  IF k = 8 THEN <<>>
  ELSE <<82, 48 + k, 32, 120>> \o Hex4(r[k]) \o <<10>> \o RegLines(r, k + 1)
RegText(s) == RegLines(s.reg, 0)
              \o <<80, 67, 32, 120>> \o Hex4(s.pc) \o <<10>>
              \o <<67, 67, 32>> \o Bin3(s.cc) \o <<10>>

(* what an input byte may deliver to R0 (D7) *)
InputOk(byte, val) == IF byte < 128 THEN val = byte ELSE val \in {byte, 65533}

(***************************************************************************)
(* Stack extension (opcode 0xD).  SP is R7; push pre-decrements, pop       *)
(* post-increments, both modulo 2^16.                                      *)
(***************************************************************************)
Push(s, v) == LET sp == Dec16(s.reg[7])
              IN  [s EXCEPT !.reg[7] = sp, !.mem = Wr(s.mem, sp, v)]
PopVal(s)  == Rd(s.mem, s.reg[7])
PopSt(s)   == [s EXCEPT !.reg[7] = Inc16(s.reg[7])]

ExecStack(s, i, stackOn) ==
  IF ~stackOn THEN Res(s, "exit1", <<>>, 0)
  ELSE IF Bit(i, 11) = 1
       THEN IF Bit(i, 10) = 1
            THEN (* CALL: push return address, PC-relative jump, 10 bits *)
                 LET p == Push(s, s.pc)
                 IN  Ok([p EXCEPT !.pc = Add16(s.pc, Sext(i, 10))])
            ELSE (* RETS *)
                 Ok([PopSt(s) EXCEPT !.pc = PopVal(s)])
       ELSE LET r == SR1(i)
            IN  IF Bit(i, 10) = 1
                THEN (* PUSH Rr: the value read before SP moves *)
                     Ok(Push(s, s.reg[r]))
                ELSE (* POP Rr: SP moves first, then Rr is written *)
                     Ok(SetR(PopSt(s), r, PopVal(s)))

(***************************************************************************)
(* TRAP services.  `inAvail`: an input byte is available; `inVal`: the     *)
(* value it delivers.                                                      *)
(***************************************************************************)
ExecTrap(s, i, inAvail, inVal) ==
  LET v == i % 256
  IN  CASE v = 32 -> IF inAvail THEN Res(SetR(s, 0, inVal), "ok", <<>>, 1)
                                 ELSE Res(s, "eof", <<>>, 0)
        [] v = 33 -> Res(s, "ok", Shown(<< s.reg[0] % 256 >>), 0)
        [] v = 34 -> Res(s, "ok", Shown(PutsFrom(s.mem, s.reg[0], 65536)), 0)
        [] v = 35 -> IF inAvail THEN Res(SetR(s, 0, inVal), "ok", Shown(<< inVal >>), 1)
                                 ELSE Res(s, "eof", <<>>, 0)
        [] v = 36 -> Res(s, "ok", Shown(PutspFrom(s.mem, s.reg[0], 65536)), 0)
        [] v = 37 -> Res([s EXCEPT !.pc = 65535], "halt", <<>>, 0)
        [] v = 38 -> Res(s, "ok", DecSigned(s.reg[0]), 0)
        [] v = 39 -> Res(s, "ok", RegText(s), 0)
        [] OTHER  -> Res(s, "exc", <<>>, 0)

NeedsInput(i) == Opcode(i) = 15 /\ (i % 256) \in {32, 35}

(***************************************************************************)
(* One instruction.                                                        *)
(***************************************************************************)
Exec(s, i, stackOn, inAvail, inVal) ==
  LET op   == Opcode(i)
      pc9  == Add16(s.pc, Sext(i, 9))
      opnd == IF Bit(i, 5) = 1 THEN Sext(i, 5) ELSE s.reg[SR2(i)]
  IN  CASE op = 0  -> (* BR *)
                      IF And16(Fld(i, 9, 3), s.cc) # 0
                      THEN Ok([s EXCEPT !.pc = pc9]) ELSE Ok(s)
        [] op = 1  -> Ok(SetRCC(s, DR(i), Add16(s.reg[SR1(i)], opnd)))
        [] op = 2  -> Ok(SetRCC(s, DR(i), Rd(s.mem, pc9)))
        [] op = 3  -> Ok([s EXCEPT !.mem = Wr(s.mem, pc9, s.reg[DR(i)])])
        [] op = 4  -> (* JSR / JSRR: target computed before R7 is written *)
                      LET target == IF Bit(i, 11) = 1 THEN Add16(s.pc, Sext(i, 11))
                                                      ELSE s.reg[SR1(i)]
                      IN  Ok([s EXCEPT !.reg[7] = s.pc, !.pc = target])
        [] op = 5  -> Ok(SetRCC(s, DR(i), And16(s.reg[SR1(i)], opnd)))
        [] op = 6  -> Ok(SetRCC(s, DR(i),
                                Rd(s.mem, Add16(s.reg[SR1(i)], Sext(i, 6)))))
        [] op = 7  -> Ok([s EXCEPT !.mem =
                            Wr(s.mem, Add16(s.reg[SR1(i)], Sext(i, 6)), s.reg[DR(i)])])
        [] op = 8  -> Res(s, "unspec", <<>>, 0)              \* RTI (D8)
        [] op = 9  -> Ok(SetRCC(s, DR(i), Not16(s.reg[SR1(i)])))
        [] op = 10 -> Ok(SetRCC(s, DR(i), Rd(s.mem, Rd(s.mem, pc9))))
        [] op = 11 -> Ok([s EXCEPT !.mem = Wr(s.mem, Rd(s.mem, pc9), s.reg[DR(i)])])
        [] op = 12 -> Ok([s EXCEPT !.pc = s.reg[SR1(i)]])
        [] op = 13 -> ExecStack(s, i, stackOn)
        [] op = 14 -> Ok(SetRCC(s, DR(i), pc9))
        [] OTHER   -> ExecTrap(s, i, inAvail, inVal)

(* the set of addresses an instruction may write *)
WrittenAddrs(s, i, stackOn) ==
  LET op == Opcode(i) IN
  CASE op = 3  -> { Add16(s.pc, Sext(i, 9)) }
    [] op = 7  -> { Add16(s.reg[SR1(i)], Sext(i, 6)) }
    [] op = 11 -> { Rd(s.mem, Add16(s.pc, Sext(i, 9))) }
    [] op = 13 /\ stackOn /\ Bit(i, 10) = 1 -> { Dec16(s.reg[7]) }
    [] OTHER   -> {}
=============================================================================
