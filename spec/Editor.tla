------------------------------- MODULE Editor --------------------------------
(***************************************************************************)
(* The debugger's interactive line editor (C20): Terminal::handle_key,     *)
(* read_line and get_next_command.  A line is a sequence of characters     *)
(* (one-character strings; a character may be 1, 2 or 4 bytes long in the  *)
(* implementation - here it is always ONE element, which is the point of   *)
(* the property: the cursor counts characters).                            *)
(*                                                                         *)
(* The "plain reference editor": `buf` is the line being written, `hist`   *)
(* the history list, `idx` the focused entry (idx = Len(hist) means the    *)
(* new line), `cur` the cursor as a character index into the focused line. *)
(* Editing a history entry first copies it to the new line (Refocus).      *)
(* Word motions follow the Vim-like rules of find_word_next /              *)
(* find_word_back.  [descriptive for the motions; normative that           *)
(* 0 <= cur <= Len(focused line) and 0 <= idx <= Len(hist)]                *)
(***************************************************************************)
EXTENDS Integers, Sequences

CONSTANTS Alnum, Space, Punct      \* character classes (sets of one-character strings)
Chars == Alnum \cup Space \cup Punct

VARIABLES buf, cur, hist, idx, pieces, submitted
evars == << buf, cur, hist, idx, pieces, submitted >>

IsNext  == idx >= Len(hist)
Current == IF IsNext THEN buf ELSE hist[idx + 1]
Blank(s) == \A i \in 1 .. Len(s) : s[i] \in Space

InsertAt(s, i, c) == SubSeq(s, 1, i) \o << c >> \o SubSeq(s, i + 1, Len(s))
RemoveAt(s, i)    == SubSeq(s, 1, i) \o SubSeq(s, i + 2, Len(s))       \* removes character number i+1

IsSp(s, i) == s[i + 1] \in Space          \* 0-based access
IsAn(s, i) == s[i + 1] \in Alnum

(* first index j in from..Len(s)-1 with a non-space character, or Len(s) *)
RECURSIVE SkipSpaces(_, _)
SkipSpaces(s, j) == IF j >= Len(s) THEN Len(s) ELSE IF ~IsSp(s, j) THEN j ELSE SkipSpaces(s, j + 1)

(* scan from j while on the run that started with class `an` *)
RECURSIVE ScanWord(_, _, _)
ScanWord(s, j, an) ==
  IF j >= Len(s) THEN Len(s)
  ELSE IF IsSp(s, j) THEN
          (* a space ends the word: go to the next non-space; if there is none, the scan stops   *)
          (* on the space itself when the word was alphanumeric, else at the end  [as the code]  *)
          LET k == SkipSpaces(s, j + 1) IN
          IF k < Len(s) THEN k ELSE IF an THEN j ELSE Len(s)
  ELSE IF IsAn(s, j) # an THEN j
  ELSE ScanWord(s, j + 1, an)

WordNext(s, c) ==
  IF c >= Len(s) THEN Len(s)
  ELSE IF IsSp(s, c) THEN SkipSpaces(s, c + 1)
  ELSE ScanWord(s, c + 1, IsAn(s, c))

RECURSIVE BackSpaces(_, _)
BackSpaces(s, j) == IF j > 0 /\ IsSp(s, j) THEN BackSpaces(s, j - 1) ELSE j
RECURSIVE BackWord(_, _, _)
BackWord(s, j, an) ==
  IF j <= 0 THEN 0
  ELSE IF IsSp(s, j - 1) \/ IsAn(s, j - 1) # an THEN j
  ELSE BackWord(s, j - 1, an)
WordBack(s, c) ==
  IF c <= 1 THEN 0
  ELSE LET j == BackSpaces(s, c - 1) IN BackWord(s, j, IsAn(s, j))

(* editing a focused history entry copies it to the new line first *)
RefocusBuf == IF IsNext THEN buf ELSE hist[idx + 1]

RECURSIVE SplitSemi(_, _, _)
SplitSemi(s, curp, acc) ==
  IF s = << >> THEN Append(acc, curp)
  ELSE IF s[1] = ";" THEN SplitSemi(Tail(s), << >>, Append(acc, curp))
  ELSE SplitSemi(Tail(s), Append(curp, s[1]), acc)

Keep == UNCHANGED << pieces, submitted >>

KChar(c) ==
  /\ c \in Chars
  /\ buf' = InsertAt(RefocusBuf, cur, c) /\ cur' = cur + 1 /\ idx' = Len(hist)
  /\ UNCHANGED hist /\ Keep
(* control characters are ignored *)
KControl == UNCHANGED evars

KBackspace ==
  /\ idx' = Len(hist) /\ UNCHANGED hist /\ Keep
  /\ IF cur > 0 /\ cur <= Len(RefocusBuf)
     THEN buf' = RemoveAt(RefocusBuf, cur - 1) /\ cur' = cur - 1
     ELSE buf' = RefocusBuf /\ cur' = cur
KDelete ==
  /\ idx' = Len(hist) /\ UNCHANGED hist /\ Keep
  /\ cur' = cur
  /\ buf' = IF cur < Len(RefocusBuf) THEN RemoveAt(RefocusBuf, cur) ELSE RefocusBuf

KLeft  == cur' = (IF cur > 0 THEN cur - 1 ELSE cur) /\ UNCHANGED << buf, hist, idx >> /\ Keep
KRight == cur' = (IF cur < Len(Current) THEN cur + 1 ELSE cur) /\ UNCHANGED << buf, hist, idx >> /\ Keep
KCtrlLeft  == cur' = WordBack(Current, cur) /\ UNCHANGED << buf, hist, idx >> /\ Keep
KCtrlRight == cur' = WordNext(Current, cur) /\ UNCHANGED << buf, hist, idx >> /\ Keep

KUp ==
  /\ UNCHANGED << buf, hist >> /\ Keep
  /\ IF idx > 0 THEN idx' = idx - 1 /\ cur' = Len(hist[idx]) ELSE UNCHANGED << idx, cur >>
KDown ==
  /\ UNCHANGED << buf, hist >> /\ Keep
  /\ IF idx < Len(hist)
     THEN /\ idx' = idx + 1
          /\ cur' = IF idx + 1 >= Len(hist) THEN Len(buf) ELSE Len(hist[idx + 2])
     ELSE UNCHANGED << idx, cur >>

(* Enter on an empty new line just clears it; otherwise the focused line is submitted *)
KEnterEmpty ==
  /\ IsNext /\ Blank(buf)
  /\ buf' = << >> /\ cur' = 0 /\ UNCHANGED << hist, idx >> /\ Keep
KEnterSubmit ==
  /\ ~(IsNext /\ Blank(buf))
  /\ LET line == RefocusBuf IN
     /\ submitted' = line
     /\ pieces' = SplitSemi(line, << >>, << >>)
     /\ hist' = IF hist # << >> /\ hist[Len(hist)] = line THEN hist ELSE Append(hist, line)
     /\ idx' = Len(hist')
     /\ buf' = line /\ cur' = cur

(* the next command of a submitted line is handed out; when none is left a new line starts *)
TakePiece == /\ pieces # << >> /\ pieces' = Tail(pieces) /\ UNCHANGED << buf, cur, hist, idx, submitted >>
NewLine   == /\ pieces = << >> /\ buf' = << >> /\ cur' = 0 /\ UNCHANGED << hist, idx, pieces, submitted >>

CursorInside == cur >= 0 /\ cur <= Len(Current)
IndexInside  == idx >= 0 /\ idx <= Len(hist)
=============================================================================
