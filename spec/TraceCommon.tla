----------------------------- MODULE TraceCommon -----------------------------
(***************************************************************************)
(* Shared plumbing of all trace-validation specs: the trace is an NDJSON   *)
(* file named by the environment variable TRACE; `l` is the index of the   *)
(* next unconsumed event; `bad` collects the indices of events no regular  *)
(* action could explain (the Resync idiom of DESIGN §4.3).                 *)
(***************************************************************************)
EXTENDS Integers, Sequences, FiniteSets, TLC, TLCExt, Json, IOUtils, Word

Rec == ndJsonDeserialize(IOEnv.TRACE)
NRec == Len(Rec)

(* JSON array of 8 words -> register file *)
RegOf(arr) == [k \in 0 .. 7 |-> arr[k + 1]]
(* JSON array of [addr, val] pairs -> sparse memory *)
MemOfList(d) ==
  LET idx == 1 .. Len(d)
  IN  [a \in { d[k][1] : k \in idx } |-> d[CHOOSE k \in idx : d[k][1] = a][2]]
(* apply a diff list to a sparse memory *)
ApplyDiff(m, d) ==
  LET idx == 1 .. Len(d)
      da  == { d[k][1] : k \in idx }
  IN  [a \in (DOMAIN m) \cup da |->
         IF a \in da THEN d[CHOOSE k \in idx : d[k][1] = a][2] ELSE m[a]]
=============================================================================
