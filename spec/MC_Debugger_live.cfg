SPECIFICATION Spec
CONSTANT K = 2
CONSTANT MUTATING = FALSE
PROPERTY Terminates
CHECK_DEADLOCK FALSE
