SPECIFICATION Spec
CONSTANT DEPTH = 2
INVARIANT TypeOK
PROPERTY Frame
PROPERTY Stops
PROPERTY HaltOnly
CHECK_DEADLOCK FALSE
