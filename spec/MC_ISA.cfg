SPECIFICATION Spec
CONSTANT DEPTH = 1
INVARIANT TypeOK
PROPERTY Frame
PROPERTY Stops
PROPERTY HaltOnly
CHECK_DEADLOCK FALSE
