SPECIFICATION Spec
CONSTANT Design = "rename"
CONSTANT MsgFatal = FALSE
INVARIANT TypeOK
INVARIANT C08
INVARIANT Litter
INVARIANT NoTouchWithoutAssembly
INVARIANT CanEnd
CHECK_DEADLOCK FALSE
