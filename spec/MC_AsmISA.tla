------------------------------ MODULE MC_AsmISA -------------------------------
(***************************************************************************)
(* Cross-module consistency (DESIGN §3): the assembler specification and   *)
(* the ISA specification agree on what a PC-relative field MEANS.  For     *)
(* every instruction with a label operand, label placed before / after /   *)
(* on the statement at several distances, at several origins: assemble     *)
(* with Assembler!Image, load with Machine!LoadState, run the machine up   *)
(* to that statement and execute it with ISA!Exec - the address it uses    *)
(* must be exactly origin + (label line - 1)  (property C01's equation).   *)
(***************************************************************************)
EXTENDS MachineDefs, TLC, Sequences

Asm == INSTANCE Assembler

It(k, labs, a, b, c, m, tt, tn, tv) ==
  [k |-> k, labs |-> labs, a |-> a, b |-> b, c |-> c, m |-> m, tt |-> tt, tn |-> tn, tv |-> tv, s |-> << >>]
P(k) == It(k, << >>, 0, 0, 0, "r", "lit", "", 0)
Fill(v, labs) == It("fill", labs, 0, 0, v, "r", "lit", "", 0)
Blkw(n) == It("blkw", << >>, 0, 0, n, "r", "lit", "", 0)
Ref(k) == It(k, << >>, IF k = "br" THEN 0 ELSE 3, 0, IF k = "br" THEN 7 ELSE 0, "r", "lab", "T", 0)

Kinds == {"lea", "ld", "ldi", "st", "sti", "jsr", "br", "call"}
Pads  == {0, 1, 5, 200}
Origins == {0, 12288, 40000}

VARIABLES kind, pad, dir, o
vars == << kind, pad, dir, o >>
Init == kind \in Kinds /\ pad \in Pads /\ dir \in {"fwd", "back", "self"} /\ o \in Origins
Next == UNCHANGED vars
Spec == Init /\ [][Next]_vars

(* the program and the 0-based index (in words) of the referencing statement *)
Prog ==
  CASE dir = "fwd"  -> << P("halt"), Ref(kind) >> \o (IF pad > 0 THEN << Blkw(pad) >> ELSE << >>) \o << Fill(4660, << "T" >>), P("halt") >>
    [] dir = "back" -> << P("halt"), Fill(4660, << "T" >>) >> \o (IF pad > 0 THEN << Blkw(pad) >> ELSE << >>) \o << Ref(kind), P("halt") >>
    [] dir = "self" -> << P("halt"), [Ref(kind) EXCEPT !.labs = << "T" >>], P("halt") >>
StmtIndex == CASE dir = "fwd" -> 1 [] dir = "back" -> 2 + pad [] dir = "self" -> 1

Accepted == Asm!Accepts(Prog, TRUE)
LabelAddr == o + Asm!Sym(Asm!Effective(Prog))["T"] - 1
StmtAddr  == o + StmtIndex

(* the machine right before the statement executes: loaded image, PC at the statement, a marker in R3, CC = Z *)
Before == LET s == LoadState(o, Asm!Image(Prog)) IN [s EXCEPT !.pc = Inc16(StmtAddr), !.reg[3] = 43981, !.cc = 2]
After  == Exec(Before, Rd(Before.mem, StmtAddr), TRUE, FALSE, 0).st

UsesLabelAddress ==
  Accepted =>
    CASE kind = "lea"  -> After.reg[3] = LabelAddr
      [] kind = "ld"   -> After.reg[3] = Rd(Before.mem, LabelAddr)
      [] kind = "ldi"  -> After.reg[3] = Rd(Before.mem, Rd(Before.mem, LabelAddr))
      [] kind = "st"   -> Rd(After.mem, LabelAddr) = 43981
      [] kind = "sti"  -> Rd(After.mem, Rd(Before.mem, LabelAddr)) = 43981
      [] kind = "jsr"  -> After.pc = LabelAddr /\ After.reg[7] = Inc16(StmtAddr)
      [] kind = "br"   -> After.pc = LabelAddr
      [] kind = "call" -> After.pc = LabelAddr /\ Rd(After.mem, After.reg[7]) = Inc16(StmtAddr)
(* and the reference is accepted exactly when the distance fits the field *)
RangeRule ==
  Accepted = FitsSigned(Asm!Sym(Asm!Effective(Prog))["T"] - (StmtIndex + 1) - 1,
                        CASE kind = "jsr" -> 11 [] kind = "call" -> 10 [] OTHER -> 9)
=============================================================================
