------------------------------- MODULE MC_ISA --------------------------------
(***************************************************************************)
(* Bounded model for C02 (part A): the instruction semantics as a          *)
(* transition system.  From a family of boundary machine states, any word  *)
(* of a representative set is executed, up to DEPTH steps.  Checked:       *)
(*   TypeOK   every register, the PC and every stored word stays a 16-bit  *)
(*            value; CC is one of none/N/Z/P                               *)
(*   Frame    only the addresses the ISA names are written, only the named *)
(*            destination register changes, CC changes only where the ISA  *)
(*            says it is set                                               *)
(*   Stops    unsupported encodings (unknown trap, 0xD with the feature    *)
(*            off) change nothing                                          *)
(* plus ASSUMEs: laws of Sext/Fld over all 65,536 words.                   *)
(***************************************************************************)
EXTENDS ISA, TLC, FiniteSets

CONSTANTS DEPTH

VARIABLES st, stackOn, last, kind, n
vars == << st, stackOn, last, kind, n >>

ASSUME SextLaws ==
  \A v \in W : /\ \A b \in {5, 6, 9, 10, 11} :
                    /\ Sext(v, b) % (2 ^ b) = v % (2 ^ b)
                    /\ FitsSigned(ToSigned(Sext(v, b)), b)
               /\ FromSigned(ToSigned(v)) = v
               /\ Add16(v, Not16(v)) = 65535
               /\ Dec16(Inc16(v)) = v
               /\ CCof(v) \in {1, 2, 4}

(* one representative word per decoding path, with field extremes *)
Words ==
  { 0, 3583, 512, 1025, 2303,                            \* BR never / nzp -1 / p / z +1 / n -1 
    4096 + 64 + 2, 4096 + 7 * 512 + 7 * 64 + 32 + 31, 4096 + 32 + 16,        \* ADD
    8192 + 255, 8192 + 3 * 512 + 256, 8192 + 7 * 512 + 511,                  \* LD
    12288 + 1, 12288 + 7 * 512 + 511,                                       \* ST
    16384 + 2048 + 1023, 16384 + 2048 + 1024, 16384 + 7 * 64, 16384 + 2 * 64, \* JSR / JSRR
    20480 + 32, 20480 + 512 + 64 + 1, 20480 + 7 * 512 + 7 * 64 + 63,         \* AND
    24576 + 7 * 512 + 7 * 64 + 32, 24576 + 64 + 31, 24576 + 3 * 512 + 3 * 64 + 63, \* LDR
    28672 + 7 * 512 + 6 * 64 + 32, 28672 + 7 * 64 + 63, 28672 + 1,          \* STR
    32768,                                                                  \* RTI
    36864 + 63, 36864 + 7 * 512 + 7 * 64 + 63,                              \* NOT
    40960 + 1, 40960 + 7 * 512 + 511,                                       \* LDI
    45056 + 1, 45056 + 7 * 512 + 510,                                       \* STI
    49152 + 7 * 64, 49152 + 3 * 64, 49152,                                  \* JMP / RET
    53248, 53248 + 7 * 64, 53248 + 1024 + 7 * 64, 53248 + 1024 + 64,        \* POP / PUSH
    53248 + 2048, 53248 + 3072 + 511, 53248 + 3072 + 512,                   \* RETS / CALL
    57344 + 1, 57344 + 7 * 512 + 256,                                       \* LEA
    61440 + 32, 61440 + 33, 61440 + 34, 61440 + 35, 61440 + 36, 61440 + 37, \* traps
    61440 + 38, 61440 + 39, 61440, 61440 + 40, 61440 + 255, 61440 + 3840 + 37 }

Regs == { [k \in 0 .. 7 |-> 0],
          [k \in 0 .. 7 |-> 65535],
          [k \in 0 .. 7 |-> IF k = 7 THEN 0 ELSE 32767 + k],
          [k \in 0 .. 7 |-> IF k = 7 THEN 65023 ELSE 12288 + 16 * k],
          [k \in 0 .. 7 |-> IF k = 0 THEN 65534 ELSE IF k = 7 THEN 65535 ELSE 1] }
Mems == { << >>,
          (65534 :> 72) @@ (65535 :> 105) @@ (0 :> 33) @@ (1 :> 0) @@ (12289 :> 65535) @@ (12290 :> 12289),
          (12288 :> 61477) @@ (12544 :> 16705) @@ (12545 :> 66) @@ (12546 :> 0) @@ (65023 :> 4660) }
Pcs == { 12289, 32768, 65024 }

Init == /\ st \in [reg : Regs, pc : Pcs, cc : {0, 1, 2, 4}, mem : Mems]
        /\ stackOn \in BOOLEAN
        /\ last = 0 /\ kind = "init" /\ n = 0

InVals == { 65, 200, 65533 }

Step(w, avail, iv) ==
  LET r == Exec(st, w, stackOn, avail, iv)
  IN  /\ n < DEPTH
      /\ kind \in {"init", "ok"}
      /\ st' = r.st /\ last' = w /\ kind' = r.kind /\ n' = n + 1
      /\ UNCHANGED stackOn

Next == \E w \in Words : IF NeedsInput(w)
                         THEN \E avail \in BOOLEAN : \E iv \in InVals : Step(w, avail, iv)
                         ELSE Step(w, FALSE, 0)
Spec == Init /\ [][Next]_vars

TypeOK == /\ st.pc \in W /\ st.cc \in {0, 1, 2, 4}
          /\ \A k \in 0 .. 7 : st.reg[k] \in W
          /\ \A a \in DOMAIN st.mem : a \in W /\ st.mem[a] \in W

(* independent statement of which register an instruction may write, and whether it sets CC *)
DestRegs(i, on) ==
  LET op == Opcode(i) IN
  CASE op \in {1, 2, 5, 6, 9, 10, 14} -> { DR(i) }
    [] op = 4 -> { 7 }
    [] op = 13 /\ on -> IF Bit(i, 11) = 1 THEN { 7 } ELSE { 7, SR1(i) }
    [] op = 15 /\ (i % 256) \in {32, 35} -> { 0 }
    [] OTHER -> {}
SetsCC(i) == Opcode(i) \in {1, 2, 5, 6, 9, 10, 14}

Frame ==
  [][ LET w == last' IN
      /\ \A a \in (DOMAIN st.mem) \cup (DOMAIN st'.mem) :
            Rd(st'.mem, a) # Rd(st.mem, a) => a \in WrittenAddrs(st, w, stackOn)
      /\ \A k \in 0 .. 7 : st'.reg[k] # st.reg[k] => k \in DestRegs(w, stackOn)
      /\ (st'.cc # st.cc => SetsCC(w))
      /\ (SetsCC(w) /\ kind' = "ok" => st'.cc = CCof(st'.reg[DR(w)]))
    ]_vars

Stops ==
  [][ kind' \in {"exc", "exit1", "eof", "unspec"} => st' = st ]_vars

(* HALT is the only way to reach PC = 0xFFFF by a trap, and it changes nothing else *)
HaltOnly ==
  [][ kind' = "halt" => /\ IsHaltWord(last')
                        /\ st' = [st EXCEPT !.pc = 65535] ]_vars
=============================================================================
