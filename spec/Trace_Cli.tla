------------------------------ MODULE Trace_Cli -------------------------------
(***************************************************************************)
(* Trace validation of the command-line tool (C06, C07, C08, C18 and the   *)
(* transport half of C14).  Events are observations of the real `lace`     *)
(* binary: argv, stdin, exit status, stdout/stderr, file bytes before and  *)
(* after, and - for compile - the open/write system calls seen by strace.  *)
(***************************************************************************)
EXTENDS TraceCommon, Assembler, CmdLang

VARIABLES l, bad
vars == << l, bad >>
Ev == Rec[l]
Init == l = 1 /\ bad = {}

HaltWord == 61477
UserEnd == 65024
LoaderAccepts(o, n) == o + n + 1 <= 65536

(* big-endian bytes of a word sequence *)
RECURSIVE BE(_)
BE(ws) == IF ws = << >> THEN << >> ELSE << ws[1] \div 256, ws[1] % 256 >> \o BE(Tail(ws))
ObjectBytes(ast) == BE(<< Origin(ast) >> \o Image(ast))

(* ---- C14: transports ---- *)
(* what a delivered line visibly does in a session on a halted program: echo prints its text, registers a dump *)
EchoOf(line) == LET c == ParseLine(line) IN
                IF c.n = "echo" THEN << "[" \o c.s \o "]" >>
                ELSE IF c.n = "registers" THEN << "<registers>" >> ELSE << >>
RECURSIVE Echoes(_)
Echoes(ls) == IF ls = << >> THEN << >> ELSE EchoOf(ls[1]) \o Echoes(Tail(ls))
TransportOk(e) ==
  /\ e.lines = Echoes(Deliver(e.arg) \o Deliver(e.stdin))
  /\ e.code = 0

(* a script that resumes a program which reads input: --command (input alone on stdin) against stdin (each input byte right behind *)
(* the command during which it is read): same output, same registers, same exit status                                              *)
XportOk(e) == e.arg = e.stdin

(* GETC fed from a real terminal: one value per typed byte, an ASCII byte as itself, any other as itself or U+FFFD (D7) *)
TtyInOk(e) ==
  /\ e.code = 0
  /\ Len(e.got) = Len(e.typed)
  /\ \A i \in 1 .. Len(e.typed) : e.got[i] \in (IF e.typed[i] < 128 THEN {e.typed[i]} ELSE {e.typed[i], 65533})
(* an object file delivered through a named pipe loads and runs exactly like the same bytes in a regular file *)
FifoLoadOk(e) == e.file = e.fifo
(* C05 at the command line: whatever the size of the input, `lace check` ends with a verdict (0 or 1), never by a signal or a panic *)
CliTotalOk(e) == e.code \in {0, 1}

(* C16 at the command line: a finite script and a command stream that ends (or cannot be read): the session ends *)
EndsOk(e) == e.ended

(* C17, the breakpoint table: one row per breakpoint; its text cell shows the statement's text, cut after 26 characters with an ellipsis *)
CellOf(t) == IF Len(t) <= 26 THEN t ELSE SubSeq(t, 1, 26) \o << "…" >>
BpTableOk(e) ==
  /\ e.code = 0
  /\ Len(e.rows) = Len(e.stmts)
  /\ \A i \in 1 .. Len(e.stmts) : e.rows[i][1] = e.stmts[i][1] /\ e.rows[i][2] = CellOf(e.stmts[i][2])

(* the values print / registers show, and the exit status, do not depend on --minimal (the decorated output must not touch the machine) *)
ModePairOk(e) == e.min = e.full /\ Len(e.min[2]) > 0

(* ---- C06: compile output, loader ---- *)
CompileOk(e) ==
  IF Accepts(e.ast, e.stack)
  THEN (e.code = 0 /\ e.bytes = ObjectBytes(e.ast)) \/ (AnyAlias(Effective(e.ast)) /\ e.code # 0)
  ELSE e.code # 0 /\ e.code # 101
(* a file offered to the loader: len bytes, first word o *)
LoadOk(e) ==
  LET fits == e.len > 0 /\ e.len % 2 = 0 /\ LoaderAccepts(e.o, e.len \div 2 - 1)
  IN  /\ e.code # 101 /\ e.code >= 0                       \* never a crash
      /\ (fits <=> ~e.refused)
      /\ (~fits => e.code # 0)
(* an image that jumps to the word right behind itself stops on the implicit HALT the loader put there *)
LoadRunOk(e) == e.code = 0 /\ e.halted
(* running the object file behaves like running the source *)
(* ... and (ESC characters aside, D9) prints the same with and without --minimal *)
PairOk(e) == e.asm = e.obj /\ e.full = e.asm

(* ---- C09 at the command line: a session of non-mutating commands ending in quit is invisible ---- *)
DbgPairOk(e) == e.run = e.dbg

(* ---- C07: check, compile, run agree ---- *)
AgreeOk(e) ==
  LET ok == Accepts(e.ast, e.stack) IN
  /\ e.panic = FALSE
  /\ IF AnyAlias(Effective(e.ast))
     THEN (e.check = e.compile /\ e.compile = e.run)
     ELSE (e.check = ok /\ e.compile = ok /\ e.run = ok)

(* a source that is not valid UTF-8 is no source: all three refuse it, none crashes *)
AgreeRawOk(e) == ~e.panic /\ ~e.check /\ ~e.compile /\ ~e.run

(* ---- C08: compile is all-or-nothing ---- *)
(* dest: "absent" | "file" | "longer" (this object + stale tail) | "devfull" | "nodir";  before/after: file bytes (or <<-1>> if absent) *)
(*       "nonutf8" / "longutf8" (absent; a name that is not UTF-8 / long with multi-byte characters)                                *)
(*       "absent-outfull" / "file-outfull" (absent / existing, and the command's stdout accepts no data)                            *)
(* The property does not say WHICH of its two outcomes a run must take when only the messages cannot be printed, nor that a        *)
(* failure may not be a panic: only that the outcome is one of the two.                                                            *)
(*       "absent-fsize" / "file-fsize" (absent / existing regular file, and the process cannot write a byte to any regular file)    *)
(*       "absent-msgfail" / "file-msgfail" (stdout stops accepting data after the first message)                                  *)
(*       "symlink" / "symlink-fsize" (a symbolic link to an existing regular file, read through the link; <<.., -3>> appended to     *)
(*       `after` if the link was replaced by something else), "mixedutf8" (name mixing 1- to 4-byte characters),                     *)
(*       "absent-pipegone" (stdout is a pipe whose reader left after the first message)                                              *)
RegularDest == {"absent", "file", "longer", "nonutf8", "longutf8", "absent-outfull", "file-outfull", "absent-msgfail", "file-msgfail",
                "symlink", "mixedutf8", "absent-pipegone", "absent-ptygone", "hardlink"}
Unwritable  == {"devfull", "nodir", "absent-fsize", "file-fsize", "symlink-fsize", "hardlink-fsize"}
AtomicOk(e) ==
  LET ok == Accepts(e.ast, e.stack) IN
  /\ (e.code = 0 => /\ ok /\ e.dest \in RegularDest /\ e.after = ObjectBytes(e.ast))
  /\ (e.code # 0 => e.after = e.before)
  /\ (~ok => e.code # 0)
  /\ (e.dest \in Unwritable => e.code # 0)
  /\ e.litter = 0                      \* no temporary file is left next to the destination
  (* system-call order (when strace could observe it): nothing is created or truncated before assembly has fully succeeded *)
  /\ (~ok /\ e.opens >= 0 => e.opens = 0)

(* the system calls of one run, replayed through the protocol model of the repaired code (Compile.tla).  A rejection here  *)
(* means the code no longer follows the modelled protocol - reported in the evidence as drift, NOT as a violation of C08:    *)
(* C08 itself is AtomicOk, which does not care how the outcome was reached.                                                  *)
Proto == INSTANCE Compile WITH Design <- "rename", MsgFatal <- FALSE
SysOk(e) ==
  LET fin == Proto!Run(Proto!Start(e.kind, e.d0, Accepts(e.ast, e.stack)), e.sys)
  IN  fin.ph = "exited" /\ fin.code = e.code /\ Proto!AllOrNothing(fin) /\ Proto!NoLitter(fin)

(* ---- C18: feature gate at the command line ---- *)
GateOk(e) ==
  /\ (e.uses /\ ~e.stack => e.code # 0 /\ e.code # 101 /\ e.names)
  /\ (e.uses /\ e.stack => e.code = 0)
  /\ (~e.uses => e.code = 0 /\ e.same)
(* opcode 0xD reached at run time without the flag: exit status 1 and a message naming the feature - whatever stdout is connected to *)
GateRunOk(e) == e.code = 1 /\ e.names
(* `eval` of one of the four mnemonics: refused, naming the feature, and without effect unless the flag is given (then it executes: R7 moves) *)
GateEvalOk(e) == /\ e.code = 0
                 /\ IF e.stack THEN e.r7 # 65023 ELSE (e.names /\ e.r7 = 65023)
(* the value of -f/--features: comma separated, empty items skipped, only "stack", not twice *)
RECURSIVE SplitComma(_, _, _)
SplitComma(s, cur, acc) ==
  IF s = << >> THEN Append(acc, cur)
  ELSE IF s[1] = "," THEN SplitComma(Tail(s), << >>, Append(acc, cur))
  ELSE SplitComma(Tail(s), Append(cur, s[1]), acc)
FeatValid(v) ==
  LET items == SelectSeq(SplitComma(v, << >>, << >>), LAMBDA x : x # << >>)
  IN  /\ \A i \in 1 .. Len(items) : items[i] = << "s", "t", "a", "c", "k" >>
      /\ Len(items) <= 1
FeatArgOk(e) == IF FeatValid(e.value) THEN e.code = 0 ELSE e.code = 2
(* a program executing PUSH/POP words: runs to HALT exactly when -f names the extension (in any accepted spelling) *)
HasStackItem(v) == \E i \in 1 .. Len(SplitComma(v, << >>, << >>)) : SplitComma(v, << >>, << >>)[i] = << "s", "t", "a", "c", "k" >>
FeatRunOk(e) == IF ~FeatValid(e.value) THEN e.code = 2
                ELSE IF HasStackItem(e.value) THEN e.code = 0 ELSE e.code = 1


(* ---- sub-command / file-extension dispatch of `lace run|debug|<bare path>` (beyond the listed   *)
(* properties; src/main.rs run()): .asm is assembled, .lc3/.obj loaded, anything else refused;    *)
(* the debugger needs a source file                                                               *)
DispatchOk(e) ==
  LET refused == \/ ~e.exists
                 \/ e.ext \notin {"asm", "lc3", "obj"}
                 \/ (e.cmd = "debug" /\ e.ext # "asm")
  IN  IF refused THEN e.code = 1 /\ ~e.ran ELSE e.code = 0 /\ e.ran

(* a re-check of `lace watch` reports what `lace check` would (C07); "none" = no re-check was   *)
(* observed in time (file-system event not delivered) - recorded, never counted as agreement     *)
(* and it prints the warnings a fresh `lace check` of the same text prints (C19: nothing is remembered from earlier re-checks)              *)
WatchOk(e) == /\ e.seen \in {"none", IF e.valid THEN "success" ELSE "error"}
              /\ e.fresh_ok = e.valid
              /\ (e.seen # "none" => e.warnings = e.fresh_warnings)

Explains(e) ==
  CASE e.ev = "transport" -> TransportOk(e)
    [] e.ev = "xport"     -> XportOk(e)
    [] e.ev = "modepair"  -> ModePairOk(e)
    [] e.ev = "bptable"   -> BpTableOk(e)
    [] e.ev = "ends"      -> EndsOk(e)
    [] e.ev = "clitotal"  -> CliTotalOk(e)
    [] e.ev = "ttyin"     -> TtyInOk(e)
    [] e.ev = "fifoload"  -> FifoLoadOk(e)
    [] e.ev = "featrun"   -> FeatRunOk(e)
    [] e.ev = "watch"     -> WatchOk(e)
    [] e.ev = "dispatch"  -> DispatchOk(e)
    [] e.ev = "compile"   -> CompileOk(e)
    [] e.ev = "loadfile"  -> LoadOk(e)
    [] e.ev = "loadrun"   -> LoadRunOk(e)
    [] e.ev = "runpair"   -> PairOk(e)
    [] e.ev = "dbgpair"   -> DbgPairOk(e)
    [] e.ev = "agree"     -> AgreeOk(e)
    [] e.ev = "agree_raw" -> AgreeRawOk(e)
    [] e.ev = "atomic"    -> AtomicOk(e)
    [] e.ev = "compile_sys" -> SysOk(e)
    [] e.ev = "gate"      -> GateOk(e)
    [] e.ev = "gate_run"  -> GateRunOk(e)
    [] e.ev = "gate_eval" -> GateEvalOk(e)
    [] e.ev = "featarg"   -> FeatArgOk(e)
    [] OTHER -> FALSE

TOk == /\ l <= NRec /\ Explains(Ev) /\ l' = l + 1 /\ UNCHANGED bad
TBad == /\ l <= NRec /\ ~Explains(Ev) /\ bad' = bad \cup { << l, Ev.ev >> } /\ l' = l + 1
Next == TOk \/ TBad
Spec == Init /\ [][Next]_vars

Accepted ==
  /\ PrintT(<< "TRACE-RESULT", IOEnv.TRACE, NRec, TLCGet("stats").diameter - 1 >>)
  /\ TLCGet("stats").diameter = NRec + 1
Done == l = NRec + 1 => PrintT(<< "TRACE-BAD", IOEnv.TRACE, bad >>)
=============================================================================
