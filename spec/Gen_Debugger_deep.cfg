SPECIFICATION GSpec
CONSTANT K = 3
CONSTANT MUTATING = TRUE
CONSTRAINT Bounded
INVARIANT Emit
CHECK_DEADLOCK FALSE
