---------------------------- MODULE MC_Assembler -----------------------------
(***************************************************************************)
(* The assembler as the two-pass pipeline the code implements              *)
(*    parse (labels recorded, references filled early when already known)  *)
(*    -> backpatch (remaining references filled from the symbol table)     *)
(*    -> emit (label distance range-checked, word encoded)                 *)
(* one action per loop iteration of each pass, checked against the         *)
(* declarative Assembler!Accepts / Image for ALL programs of up to N items *)
(* over a universe of item shapes (every way a label can be defined and    *)
(* used: before, after, on the referencing statement; literal offsets;     *)
(* data directives that shift lines; .orig / .break / .end anywhere).      *)
(*                                                                         *)
(*   Refines   when the pipeline finishes, verdict = Accepts and           *)
(*             image / origin / breakpoints = Image / OrigDecl / Breaks    *)
(*   NoSpill   an emitted word decodes back to the fields that were        *)
(*             written (no truncation or spill into neighbouring fields)   *)
(*   Progress  every pass consumes an item per step (variant decreases)    *)
(***************************************************************************)
EXTENDS Assembler, Sequences

CONSTANTS N, STACK, CORE

It(k, labs, a, b, c, m, tt, tn, tv, s) ==
  [k |-> k, labs |-> labs, a |-> a, b |-> b, c |-> c, m |-> m, tt |-> tt, tn |-> tn, tv |-> tv, s |-> s]
Plain(k) == It(k, << >>, 0, 0, 0, "r", "lit", "", 0, << >>)

Shapes ==
  { Plain("halt"), Plain("break"), Plain("end"), Plain("ret"),
    [Plain("orig") EXCEPT !.c = 16384], [Plain("orig") EXCEPT !.c = 65535],
    [Plain("add") EXCEPT !.a = 1, !.b = 2, !.c = -16, !.m = "i"],
    [Plain("add") EXCEPT !.a = 1, !.b = 2, !.c = 16, !.m = "i"],
    [Plain("add") EXCEPT !.a = 7, !.b = 7, !.c = 65535, !.m = "i"],
    [Plain("ldr") EXCEPT !.a = 7, !.b = 6, !.c = -32],
    [Plain("ldr") EXCEPT !.a = 7, !.b = 6, !.c = 32],
    [Plain("trap") EXCEPT !.c = 255], [Plain("trap") EXCEPT !.c = 256],
    [Plain("ld") EXCEPT !.a = 3, !.tt = "lab", !.tn = "A"],
    [Plain("st") EXCEPT !.a = 3, !.tt = "lab", !.tn = "B"],
    [Plain("br") EXCEPT !.c = 5, !.tt = "lab", !.tn = "A"],
    [Plain("br") EXCEPT !.c = 7, !.tt = "lit", !.tv = -2],
    [Plain("lea") EXCEPT !.a = 2, !.tt = "lit", !.tv = 255],
    [Plain("lea") EXCEPT !.a = 2, !.tt = "lit", !.tv = 256],
    [Plain("jsr") EXCEPT !.tt = "lab", !.tn = "B"],
    [Plain("call") EXCEPT !.tt = "lab", !.tn = "A"],
    [Plain("push") EXCEPT !.b = 5],
    [Plain("fill") EXCEPT !.c = -1],
    [Plain("blkw") EXCEPT !.c = 2], [Plain("blkw") EXCEPT !.c = 300], [Plain("blkw") EXCEPT !.c = 0],
    [Plain("stringz") EXCEPT !.s = << 104, 105 >>] }
LabelChoices == { << >>, << "A" >>, << "B" >>, << "a" >> }
CoreShapes ==
  { Plain("halt"), Plain("break"), Plain("end"),
    [Plain("orig") EXCEPT !.c = 16384],
    [Plain("ld") EXCEPT !.a = 3, !.tt = "lab", !.tn = "A"],
    [Plain("st") EXCEPT !.a = 3, !.tt = "lab", !.tn = "B"],
    [Plain("br") EXCEPT !.c = 5, !.tt = "lab", !.tn = "A"],
    [Plain("br") EXCEPT !.c = 7, !.tt = "lit", !.tv = -2],
    [Plain("jsr") EXCEPT !.tt = "lab", !.tn = "B"],
    [Plain("blkw") EXCEPT !.c = 2], [Plain("blkw") EXCEPT !.c = 256], [Plain("blkw") EXCEPT !.c = 0],
    [Plain("stringz") EXCEPT !.s = << 104 >>] }
Items == IF CORE
         THEN { [sh EXCEPT !.labs = ls] : sh \in CoreShapes, ls \in { << >>, << "A" >>, << "B" >> } }
         ELSE { [sh EXCEPT !.labs = ls] : sh \in Shapes, ls \in LabelChoices }

VARIABLES ast, phase, pos, line, symtab, origv, bps, air, image, steps, pendingLab
vars == << ast, phase, pos, line, symtab, origv, bps, air, image, steps, pendingLab >>

Programs == UNION { [1 .. n -> Items] : n \in 1 .. N }

Init == /\ ast \in Programs
        /\ phase = "parse" /\ pos = 1 /\ line = 1
        /\ symtab = << >> /\ origv = -1 /\ bps = {} /\ air = << >> /\ image = << >> /\ steps = 0 /\ pendingLab = FALSE

Fail == /\ phase' = "err" /\ UNCHANGED << ast, pos, line, symtab, origv, bps, air, image, pendingLab >>
        /\ steps' = steps + 1

(* one word of AIR: the item that produced it, its line, and the state of its label reference *)
Air(it, ln, ref, j) == [it |-> it, line |-> ln, ref |-> ref, j |-> j]
Unfilled(name) == [filled |-> FALSE, name |-> name, v |-> 0]
Ref(v)         == [filled |-> TRUE, name |-> "", v |-> v]

ParseLitOk(it) ==
  CASE it.k \in {"add", "and"} -> (it.m = "i" => ImmOk(it.c, 5))
    [] it.k \in {"ldr", "str"} -> ImmOk(it.c, 6)
    [] it.k = "trap" -> UnsOk(it.c, 8)
    [] it.k = "call" /\ it.tt = "lit" -> FALSE
    [] HasTarget(it) /\ it.tt = "lit" -> ImmOk(it.tv, OffBits(it))
    [] OTHER -> TRUE

ParseStep ==
  /\ phase = "parse"
  /\ IF pos > Len(ast) THEN
        IF pendingLab THEN Fail       \* a label with nothing after it
        ELSE /\ phase' = "backpatch" /\ pos' = 1 /\ steps' = steps + 1
             /\ UNCHANGED << ast, line, symtab, origv, bps, air, image, pendingLab >>
     ELSE
       LET it   == ast[pos]
           hasL == Len(it.labs) = 1
           dup  == hasL /\ it.labs[1] \in DOMAIN symtab
           sym1 == IF hasL /\ ~dup
                   THEN [n \in (DOMAIN symtab) \cup {it.labs[1]} |->
                           IF n = it.labs[1] THEN line ELSE symtab[n]]
                   ELSE symtab
           ref  == IF HasTarget(it)
                   THEN IF it.tt = "lab"
                        THEN IF it.tn \in DOMAIN sym1 THEN Ref(sym1[it.tn]) ELSE Unfilled(it.tn)
                        ELSE Ref((line + 1 + AsSigned(it.tv) + M16) % M16)
                   ELSE Ref(0)
           words == IF it.k = "stringz" THEN Len(it.s) + 1 ELSE IF it.k = "blkw" THEN it.c ELSE 1
       IN
       (* two labels in a row (the first one possibly left over from a `.blkw 0`, which has no token) *)
       IF Len(it.labs) > 1 \/ dup \/ (hasL /\ pendingLab) THEN Fail
       ELSE IF it.k = "end" THEN
            IF hasL \/ pendingLab THEN Fail
            ELSE /\ phase' = "backpatch" /\ pos' = 1 /\ steps' = steps + 1
                 /\ UNCHANGED << ast, line, symtab, origv, bps, air, image, pendingLab >>
       ELSE IF it.k = "orig" THEN
            IF origv # -1 \/ ~UnsOk(it.c, 16) THEN Fail
            ELSE /\ origv' = AsWord(it.c) /\ symtab' = sym1 /\ pos' = pos + 1 /\ steps' = steps + 1
                 /\ pendingLab' = FALSE
                 /\ UNCHANGED << ast, phase, line, bps, air, image >>
       ELSE IF it.k = "break" THEN
            /\ bps' = bps \cup {Len(air)} /\ symtab' = sym1 /\ pos' = pos + 1 /\ steps' = steps + 1
            /\ pendingLab' = FALSE
            /\ UNCHANGED << ast, phase, line, origv, air, image >>
       ELSE IF (it.k \in StackKinds /\ ~STACK) \/ ~ParseLitOk(it)
                 \/ (it.k = "fill" /\ ~LitOk(it.c)) THEN Fail
       ELSE /\ air' = air \o [j \in 1 .. words |-> Air(it, line + j - 1, ref, j)]
            /\ line' = line + words /\ symtab' = sym1 /\ pos' = pos + 1 /\ steps' = steps + 1
            /\ pendingLab' = IF words = 0 THEN (pendingLab \/ hasL) ELSE FALSE
            /\ UNCHANGED << ast, phase, origv, bps, image >>

BackpatchStep ==
  /\ phase = "backpatch"
  /\ IF pos > Len(air) THEN
        /\ phase' = "emit" /\ pos' = 1 /\ steps' = steps + 1
        /\ UNCHANGED << ast, line, symtab, origv, bps, air, image, pendingLab >>
     ELSE
       LET w == air[pos] IN
       IF w.ref.filled THEN
          /\ pos' = pos + 1 /\ steps' = steps + 1
          /\ UNCHANGED << ast, phase, line, symtab, origv, bps, air, image, pendingLab >>
       ELSE IF w.ref.name \in DOMAIN symtab THEN
          /\ air' = [air EXCEPT ![pos].ref = Ref(symtab[w.ref.name])]
          /\ pos' = pos + 1 /\ steps' = steps + 1
          /\ UNCHANGED << ast, phase, line, symtab, origv, bps, image, pendingLab >>
       ELSE Fail

(* the code's bit_offs: difference modulo 2^16 read as signed, minus one *)
CodeOffset(ref, ln) == ToSigned((ref - ln + 2 * M16) % M16) - 1

EmitWord(w) ==
  LET it == w.it IN
  CASE it.k = "stringz" -> (IF w.j <= Len(it.s) THEN it.s[w.j] ELSE 0)
    [] it.k = "blkw"    -> 0
    [] HasTarget(it)    ->
         EncodeInstr([it EXCEPT !.tt = "lit", !.tv = CodeOffset(w.ref.v, w.line)], w.line, << >>)
    [] OTHER            -> EncodeInstr(it, w.line, << >>)

EmitStep ==
  /\ phase = "emit"
  /\ IF pos > Len(air) THEN
        /\ phase' = "done" /\ steps' = steps + 1
        /\ UNCHANGED << ast, pos, line, symtab, origv, bps, air, image, pendingLab >>
     ELSE
       LET w == air[pos] IN
       IF HasTarget(w.it) /\ ~FitsSigned(CodeOffset(w.ref.v, w.line), OffBits(w.it)) THEN Fail
       ELSE /\ image' = Append(image, EmitWord(w)) /\ pos' = pos + 1 /\ steps' = steps + 1
            /\ UNCHANGED << ast, phase, line, symtab, origv, bps, air, pendingLab >>

Next == ParseStep \/ BackpatchStep \/ EmitStep
Spec == Init /\ [][Next]_vars

Refines ==
  /\ (phase = "done" => /\ Accepts(ast, STACK)
                        /\ image = Image(ast)
                        /\ origv = OrigDecl(ast)
                        /\ bps = Breaks(ast))
  /\ (phase = "err" => ~Accepts(ast, STACK))

(* every emitted instruction word decodes back to the operand values that were written *)
Decodes(w, word) ==
  LET it == w.it IN
  CASE it.k \in {"add", "and"} /\ it.m = "i" ->
          /\ ToSigned(Sext(word, 5)) = AsSigned(it.c) /\ Fld(word, 5, 1) = 1
          /\ Fld(word, 9, 3) = it.a /\ Fld(word, 6, 3) = it.b
    [] it.k \in {"ldr", "str"} ->
          /\ ToSigned(Sext(word, 6)) = AsSigned(it.c)
          /\ Fld(word, 9, 3) = it.a /\ Fld(word, 6, 3) = it.b
    [] it.k = "trap" -> word % 256 = it.c /\ Fld(word, 8, 4) = 0
    [] HasTarget(it) /\ it.tt = "lit" -> ToSigned(Sext(word, OffBits(it))) = AsSigned(it.tv)
    [] HasTarget(it) /\ it.tt = "lab" ->
          (* PC-relative equation: target line = own line + 1 + offset *)
          w.line + 1 + ToSigned(Sext(word, OffBits(it))) = w.ref.v
    [] OTHER -> TRUE
NoSpill ==
  phase \in {"emit", "done"} =>
     \A i \in 1 .. Len(image) :
        (air[i].it.k \notin {"stringz", "blkw"}) => Decodes(air[i], image[i])

Progress == steps <= 3 + Len(ast) + 2 * (Len(air) + 1)
=============================================================================
