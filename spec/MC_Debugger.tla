----------------------------- MODULE MC_Debugger -----------------------------
(***************************************************************************)
(* Bounded model of the debugger (part A of C09-C13, C16): a catalogue of  *)
(* tiny programs (assembled by Assembler!Image, so label addresses are the *)
(* assembler's) x ALL command scripts up to length K over a command        *)
(* alphabet, followed by end of input (= quit).                            *)
(*                                                                         *)
(*  ProgressBound         C16  iterations <= executed + consumed + 1       *)
(*  Terminates            C16  every session ends (liveness, WF(Next))     *)
(*  BreakpointsRespected  C11  no instruction at a breakpoint executes     *)
(*                             without a pause at that breakpoint first    *)
(*  NoHaltWhileAttached   C10  HALT never executes while attached          *)
(*  InitialFrozen         C12  the saved initial state never changes       *)
(*  ResetRestores         C12  after `reset` the machine is the loaded one *)
(*  Transparent           C09  scripts of non-mutating commands end in the *)
(*                             reference machine's final state             *)
(*  StepCounts            C10  `step into k` executes exactly max(k,1)     *)
(*                             instructions unless it pauses early at a    *)
(*                             breakpoint / HALT / out-of-window PC        *)
(*  Confined              C13  a command changes at most the one word or   *)
(*                             register it names; refusals change nothing  *)
(***************************************************************************)
EXTENDS Debugger, Sequences

CONSTANTS K, MUTATING

It(k, labs, a, b, c, m, tt, tn, tv) ==
  [k |-> k, labs |-> labs, a |-> a, b |-> b, c |-> c, m |-> m, tt |-> tt, tn |-> tn, tv |-> tv, s |-> << >>]
P(k)            == It(k, << >>, 0, 0, 0, "r", "lit", "", 0)
AddI(d, s, i)   == It("add", << >>, d, s, i, "i", "lit", "", 0)
AndI(d, s, i)   == It("and", << >>, d, s, i, "i", "lit", "", 0)
Lab(it, l)      == [it EXCEPT !.labs = << l >>]
PcL(k, r, l)    == It(k, << >>, r, 0, 0, "r", "lab", l, 0)
BrL(c, l)       == It("br", << >>, 0, 0, c, "r", "lab", l, 0)
R1(k, r)        == It(k, << >>, 0, r, 0, "r", "lit", "", 0)
Fill(v)         == It("fill", << >>, 0, 0, v, "r", "lit", "", 0)
Orig(v)         == It("orig", << >>, 0, 0, v, "r", "lit", "", 0)

Progs == [
  straight |-> [stack |-> FALSE, ast |-> << AddI(0, 0, 1), AddI(0, 0, 1), P("halt") >>],
  loop     |-> [stack |-> FALSE, ast |-> << AndI(1, 1, 0), AddI(1, 1, 2), Lab(AddI(1, 1, -1), "top"), BrL(1, "top"), P("halt") >>],
  jsr      |-> [stack |-> FALSE, ast |-> << PcL("jsr", 0, "f"), AddI(0, 0, 1), P("halt"), Lab(AddI(1, 1, 1), "f"), P("ret") >>],
  rec      |-> [stack |-> TRUE,  ast |-> << AndI(0, 0, 0), AddI(0, 0, 2), PcL("call", 0, "d"), P("halt"),
                                           Lab(AddI(0, 0, -1), "d"), BrL(2, "b"), Lab(PcL("call", 0, "d"), "site"), Lab(P("rets"), "b") >>],
  jmpffff  |-> [stack |-> FALSE, ast |-> << PcL("ld", 0, "t"), R1("jmp", 0), P("halt"), Lab(Fill(65535), "t") >>],
  jmplow   |-> [stack |-> FALSE, ast |-> << Orig(16384), PcL("ld", 0, "t"), R1("jmp", 0), P("halt"), Lab(Fill(16383), "t") >>],
  haltmid  |-> [stack |-> FALSE, ast |-> << AddI(0, 0, 1), P("halt"), AddI(0, 0, 2), P("halt") >>],
  tight    |-> [stack |-> FALSE, ast |-> << AndI(1, 1, 0), AddI(1, 1, 3), P("break"), Lab(AddI(1, 1, -1), "top"), BrL(1, "top") >>],
  store    |-> [stack |-> FALSE, ast |-> << AddI(0, 0, 7), PcL("st", 0, "x"), PcL("st", 0, "code"), Lab(AddI(0, 0, 1), "code"), P("halt"), Lab(Fill(0), "x") >> ]
]
ProgNames == DOMAIN Progs

Cmd(n, lt, lv, ln, v) == [n |-> n, lt |-> lt, lv |-> lv, ln |-> ln, v |-> v, s |-> "", wf |-> TRUE, it |-> P("ret")]
Alphabet(o) ==
  { Cmd("step", "none", 0, "", 0), Cmd("stepinto", "none", 0, "", 1), Cmd("stepinto", "none", 0, "", 3),
    Cmd("stepout", "none", 0, "", 0), Cmd("continue", "none", 0, "", 0),
    Cmd("breakadd", "addr", o + 1, "", 0), Cmd("breakadd", "addr", o + 3, "", 0), Cmd("breakremove", "addr", o + 3, "", 0),
    Cmd("print", "pcoff", 0, "", 0), Cmd("breaklist", "none", 0, "", 0) }
  \cup (IF MUTATING THEN { Cmd("goto", "addr", o, "", 0), Cmd("goto", "addr", o + 2, "", 0), Cmd("reset", "none", 0, "", 0),
                           Cmd("move", "reg", 1, "", 5), Cmd("move", "addr", o + 1, "", 61477), Cmd("move", "addr", o - 1, "", 1),
                           Cmd("exit", "none", 0, "", 0) }
        ELSE {})

VARIABLES prog, script, lastCmd, pre, execAtCmd, budget
mcvars == << prog, script, lastCmd, pre, execAtCmd, budget >>
vars == << allvars, mcvars >>

Eof == Cmd("eof", "none", 0, "", 0)

Scripts(o) == UNION { [1 .. n -> Alphabet(o)] : n \in 0 .. K }

Init ==
  /\ prog \in ProgNames
  /\ LET p == Progs[prog]
         o == Asm!Origin(p.ast)
     IN  /\ MInit(o, Asm!Image(p.ast), p.stack, << >>)
         /\ bps = { o + b : b \in Asm!Breaks(p.ast) }
         /\ syms = Asm!Sym(Asm!Effective(p.ast))
         /\ initial = LoadState(o, Asm!Image(p.ast))
         /\ script \in Scripts(o)
  /\ attached = TRUE /\ status = Wait /\ cur = -1 /\ icount = 0 /\ phase = "top"
  /\ texts = << >> /\ tags = << >> /\ text = << >>
  /\ iter = 0 /\ nExec = 0 /\ nCmd = 0
  /\ lastCmd = Eof /\ pre = st /\ execAtCmd = 0 /\ budget = 0

NextCmd ==
  LET c == IF script = << >> THEN Eof ELSE Head(script)
  IN  /\ DCmd(c, 0)
      /\ script' = IF script = << >> THEN script ELSE Tail(script)
      /\ lastCmd' = c /\ pre' = st /\ execAtCmd' = nExec
      /\ budget' = IF c.n = "stepinto" THEN (IF c.v < 1 THEN 1 ELSE c.v) ELSE 0
      /\ UNCHANGED prog

Next ==
  \/ (DLoopTop /\ UNCHANGED mcvars)
  \/ NextCmd
  \/ (DExec /\ UNCHANGED mcvars)
  \/ (DPlainStep /\ UNCHANGED mcvars)
  \/ (DPlainStop /\ UNCHANGED mcvars)
Spec == Init /\ [][Next]_vars /\ WF_vars(Next)

(* ---- C16 ---- *)
Terminates == <>(run # "running")
(* mutating commands can make a program run (almost) forever: bound the exploration *)
Bounded == nExec <= 60

(* ---- C12 ---- *)
ResetRestores == (lastCmd.n = "reset" /\ phase = "cmd" /\ nCmd > 0 /\ text = << >>) => (st = initial \/ nExec > execAtCmd)

(* ---- C09: reference machine ---- *)
RECURSIVE RefRun(_, _, _, _)
RefRun(s, o, stk, fuel) ==
  IF fuel = 0 \/ s.pc = 65535 \/ ~InWindow(o, s.pc) THEN s
  ELSE LET r == Exec([s EXCEPT !.pc = Inc16(s.pc)], Rd(s.mem, s.pc), stk, FALSE, 0)
       IN  IF r.kind \in {"ok", "halt"} THEN RefRun(r.st, o, stk, fuel - 1) ELSE r.st
RefFinal == RefRun(initial, orig, stackOn, 400)
Transparent ==
  (~MUTATING /\ run # "running") => /\ st.reg = RefFinal.reg /\ st.pc = RefFinal.pc /\ st.cc = RefFinal.cc
                                    /\ MemEq(st.mem, RefFinal.mem)

(* ---- C10: step into k ---- *)
(* when the debugger is back at the prompt after `step into k`, it executed exactly k instructions   *)
(* unless it was interrupted: the pause was announced (tags non-empty)                              *)
StepCounts ==
  (attached /\ phase = "cmd" /\ lastCmd.n = "stepinto" /\ budget > 0 /\ nExec > execAtCmd /\ tags = << >>)
     => nExec - execAtCmd = budget
(* never more than asked *)
StepNoOvershoot ==
  (attached /\ lastCmd.n = "stepinto" /\ budget > 0) => nExec - execAtCmd <= budget

(* ---- C13 ---- *)
ChangedRegs(a, b) == { k \in 0 .. 7 : a.reg[k] # b.reg[k] }
ChangedMem(a, b)  == { x \in (DOMAIN a.mem) \cup (DOMAIN b.mem) : Rd(a.mem, x) # Rd(b.mem, x) }
Confined ==
  (phase = "cmd" /\ nCmd > 0 /\ nExec = execAtCmd) =>
     CASE lastCmd.n \in ReadOnlyNames \cup {"breakadd", "breakremove"} -> st = pre
       [] lastCmd.n = "move" /\ lastCmd.lt = "reg" ->
            /\ ChangedRegs(pre, st) \subseteq {lastCmd.lv} /\ ChangedMem(pre, st) = {} /\ st.pc = pre.pc /\ st.cc = pre.cc
       [] lastCmd.n = "move" ->
            /\ ChangedRegs(pre, st) = {} /\ st.pc = pre.pc /\ st.cc = pre.cc
            /\ ChangedMem(pre, st) \subseteq ({lastCmd.lv} \cap { a \in W : InWindow(orig, a) })
       [] lastCmd.n = "goto" ->
            /\ ChangedRegs(pre, st) = {} /\ ChangedMem(pre, st) = {} /\ st.cc = pre.cc
            /\ (st.pc # pre.pc => InWindow(orig, st.pc) /\ st.pc = lastCmd.lv)
       [] OTHER -> TRUE
(* breakpoints only ever lie in user space or on the sentinel (.break after the last statement) *)
BpsInUserSpace == \A a \in bps : a >= orig /\ a <= UserEnd
=============================================================================
