------------------------------- MODULE CmdLang -------------------------------
(***************************************************************************)
(* The debugger's command language (C14).  Normative sources: help.txt     *)
(* (command names, argument kinds), the doc comment of Integer::try_parse  *)
(* (integer grammar), NaiveType docs (which argument kinds a position      *)
(* admits).  A token is a sequence of one-character strings.               *)
(*                                                                         *)
(* Integer grammar:                                                        *)
(*   [sign] [ "0"? prefix ] [sign] digits      with at most one sign,      *)
(*   prefix in # x X o O b B; "#" may not follow "0"; a bare digit string  *)
(*   is decimal; "0" alone is zero; |value| must fit i32.                  *)
(*   A token starting with x/o/b (no sign, no leading zero) that is not    *)
(*   all digits is "not an integer" (it may be a label); every other       *)
(*   defect makes the token an ERROR.                                      *)
(* Results are records [k |-> "int"|"none"|"err", v |-> value].            *)
(***************************************************************************)
EXTENDS Integers, Sequences, FiniteSets, TLC

Lower  == {"a","b","c","d","e","f","g","h","i","j","k","l","m","n","o","p","q","r","s","t","u","v","w","x","y","z"}
Upper  == {"A","B","C","D","E","F","G","H","I","J","K","L","M","N","O","P","Q","R","S","T","U","V","W","X","Y","Z"}
Digits == {"0","1","2","3","4","5","6","7","8","9"}
LabelStart == Lower \cup Upper \cup {"_"}
LabelChar  == LabelStart \cup Digits

DigVal == [c \in Digits \cup {"a","b","c","d","e","f","A","B","C","D","E","F"} |->
             CASE c = "0" -> 0 [] c = "1" -> 1 [] c = "2" -> 2 [] c = "3" -> 3 [] c = "4" -> 4
               [] c = "5" -> 5 [] c = "6" -> 6 [] c = "7" -> 7 [] c = "8" -> 8 [] c = "9" -> 9
               [] c \in {"a","A"} -> 10 [] c \in {"b","B"} -> 11 [] c \in {"c","C"} -> 12
               [] c \in {"d","D"} -> 13 [] c \in {"e","E"} -> 14 [] c \in {"f","F"} -> 15]
IsDigit(c, radix) == c \in DOMAIN DigVal /\ DigVal[c] < radix

R(k, v) == [k |-> k, v |-> v]
NoneR == R("none", 0)
ErrR == R("err", 0)
IntR(v) == R("int", v)

I32Max == 2147483647

Rest(s, n) == SubSeq(s, n + 1, Len(s))
SignOf(c) == IF c = "-" THEN -1 ELSE 1
IsSign(c) == c \in {"+", "-"}

(* digits of s in the given radix; "err" on a non-digit, "big" on i32 overflow *)
RECURSIVE Digs(_, _, _)
Digs(s, radix, acc) ==
  IF s = << >> THEN IntR(acc)
  ELSE IF ~IsDigit(s[1], radix) THEN NoneR
  ELSE IF acc > (I32Max - DigVal[s[1]]) \div radix THEN ErrR      \* would exceed i32
  ELSE Digs(Tail(s), radix, acc * radix + DigVal[s[1]])

RadixOf(c) == CASE c \in {"b","B"} -> 2 [] c \in {"o","O"} -> 8 [] c \in {"x","X"} -> 16 [] OTHER -> 10

ParseInteger(tok, requireSign) ==
  IF tok = << >> THEN NoneR
  ELSE
  LET s0    == tok
      sign1 == IsSign(s0[1])
      s1    == IF sign1 THEN Tail(s0) ELSE s0
  IN
  IF requireSign /\ ~sign1 THEN ErrR
  ELSE
  LET zero == s1 # << >> /\ s1[1] = "0"
      s2   == IF zero THEN Tail(s1) ELSE s1          \* one optional leading zero
  IN
  IF s2 = << >> THEN (IF zero THEN IntR(0) ELSE (IF sign1 THEN ErrR ELSE NoneR))
  ELSE
  LET c == s2[1] IN
  IF IsSign(c) THEN ErrR                               \* "0-", "--", "-+"
  ELSE IF c = "#" /\ zero THEN ErrR                    \* "0#2"
  ELSE IF ~(c \in {"b","B","o","O","x","X","#"} \cup Digits)
       THEN (IF zero \/ sign1 THEN ErrR ELSE NoneR)     \* not an integer at all
  ELSE
  LET explicit == c \notin Digits
      radix    == RadixOf(c)
      s3       == IF explicit THEN Tail(s2) ELSE s2
      sign2    == s3 # << >> /\ IsSign(s3[1])
      s4       == IF sign2 THEN Tail(s3) ELSE s3
      anySign  == sign1 \/ sign2
      sgn      == IF sign1 THEN SignOf(s0[1]) ELSE IF sign2 THEN SignOf(s3[1]) ELSE 1
      (* a token that stops being an integer: an error if it committed to being one *)
      giveUp   == IF anySign \/ zero \/ radix = 10 THEN ErrR ELSE NoneR
  IN
  IF sign1 /\ sign2 THEN ErrR
  ELSE IF s4 = << >> THEN giveUp
  ELSE LET d == Digs(s4, radix, 0)
       IN  CASE d.k = "int"  -> IntR(sgn * d.v)
             [] d.k = "none" -> giveUp
             [] OTHER        -> ErrR

AsU16(r)     == IF r.k # "int" THEN r ELSE IF r.v >= 0 /\ r.v <= 65535 THEN r ELSE ErrR
AsI16(r)     == IF r.k # "int" THEN r ELSE IF r.v >= -32768 /\ r.v <= 32767 THEN r ELSE ErrR
AsU16Cast(r) == IF r.k # "int" THEN r
                ELSE IF r.v < 0 THEN (IF r.v >= -32768 THEN IntR(r.v + 65536) ELSE ErrR)
                ELSE AsU16(r)

(* ---- registers, PC offsets, labels ---- *)
ParseRegister(tok) ==
  IF Len(tok) < 2 \/ tok[1] \notin {"r", "R"} \/ tok[2] \notin {"0","1","2","3","4","5","6","7"} THEN NoneR
  ELSE IF Len(tok) = 2 THEN IntR(DigVal[tok[2]])
  ELSE IF tok[3] \in LabelChar THEN NoneR ELSE ErrR

ParsePCOffset(tok) ==
  IF tok = << >> \/ tok[1] # "^" THEN NoneR
  ELSE IF Len(tok) = 1 THEN IntR(0)
  ELSE LET r == ParseInteger(Tail(tok), FALSE)
       IN  IF r.k = "none" THEN ErrR ELSE AsI16(r)

RECURSIVE NameLen(_, _)
NameLen(tok, n) == IF n < Len(tok) /\ tok[n + 1] \in LabelChar THEN NameLen(tok, n + 1) ELSE n
(* result: [k, name (sequence of chars), v (offset)] *)
ParseLabel(tok) ==
  IF tok = << >> \/ tok[1] \notin LabelStart THEN [k |-> "none", name |-> << >>, v |-> 0]
  ELSE LET n    == NameLen(tok, 1)
           rest == Rest(tok, n)
           off  == IF rest = << >> THEN IntR(0)
                   ELSE LET r == ParseInteger(rest, TRUE) IN IF r.k = "none" THEN ErrR ELSE AsI16(r)
       IN  [k |-> IF off.k = "int" THEN "label" ELSE "err", name |-> SubSeq(tok, 1, n), v |-> off.v]

(* ---- the naive pre-check: which kind a token can only be ---- *)
AllDigits(s, radix) == s # << >> /\ \A i \in 1 .. Len(s) : IsDigit(s[i], radix)
NaiveType(tok) ==
  IF tok = << >> THEN "unknown"
  ELSE IF tok[1] = "^" THEN "pcoffset"
  ELSE IF Len(tok) >= 2 /\ tok[1] \in {"r","R"} /\ tok[2] \in {"0","1","2","3","4","5","6","7"}
          /\ ~(Len(tok) >= 3 /\ tok[3] \in LabelChar) THEN "register"
  ELSE IF tok[1] \in {"-", "+", "#"} \cup Digits THEN "integer"
  ELSE IF tok[1] \in {"b","B","o","O","x","X"}
          /\ LET t == Tail(tok)
                 u == IF t # << >> /\ IsSign(t[1]) THEN Tail(t) ELSE t
             IN  AllDigits(u, RadixOf(tok[1])) THEN "integer"
  ELSE IF tok[1] \in LabelStart THEN "label"
  ELSE "unknown"

(* ---- argument positions ---- *)
(* a memory location: ^offset | absolute address | label+-offset *)
MLoc(t, v, name) == [k |-> t, v |-> v, name |-> name]
ParseMemoryLocation(tok) ==
  IF NaiveType(tok) = "register" THEN MLoc("err", 0, << >>)
  ELSE LET p == ParsePCOffset(tok) IN
  IF p.k = "int" THEN MLoc("pcoff", p.v, << >>)
  ELSE IF p.k = "err" THEN MLoc("err", 0, << >>)
  ELSE LET i == ParseInteger(tok, FALSE) IN
  IF i.k = "int" THEN (IF AsU16(i).k = "int" THEN MLoc("addr", i.v, << >>) ELSE MLoc("err", 0, << >>))
  ELSE IF i.k = "err" THEN MLoc("err", 0, << >>)
  ELSE LET lb == ParseLabel(tok) IN
  IF lb.k = "label" THEN MLoc("label", lb.v, lb.name)
  ELSE MLoc("err", 0, << >>)

(* a location: register | memory location *)
ParseLocation(tok) ==
  LET r == ParseRegister(tok) IN
  IF r.k = "int" THEN MLoc("reg", r.v, << >>)
  ELSE IF r.k = "err" THEN MLoc("err", 0, << >>)
  ELSE
  (* no naive pre-check in this position *)
  LET p == ParsePCOffset(tok) IN
  IF p.k = "int" THEN MLoc("pcoff", p.v, << >>)
  ELSE IF p.k = "err" THEN MLoc("err", 0, << >>)
  ELSE LET i == ParseInteger(tok, FALSE) IN
  IF i.k = "int" THEN (IF AsU16(i).k = "int" THEN MLoc("addr", i.v, << >>) ELSE MLoc("err", 0, << >>))
  ELSE IF i.k = "err" THEN MLoc("err", 0, << >>)
  ELSE LET lb == ParseLabel(tok) IN
  IF lb.k = "label" THEN MLoc("label", lb.v, lb.name) ELSE MLoc("err", 0, << >>)

(* an integer value argument (move VALUE, step into COUNT): 16 bits, negatives cast *)
ParseValue(tok) ==
  IF NaiveType(tok) \in {"register", "label", "pcoffset"} THEN ErrR
  ELSE LET r == AsU16Cast(ParseInteger(tok, FALSE)) IN IF r.k = "int" THEN r ELSE ErrR

(***************************************************************************)
(* Unambiguity: the four argument kinds partition the tokens they accept.  *)
(***************************************************************************)
Kinds(tok) == { k \in {"reg", "pcoff", "int", "label"} :
                  CASE k = "reg"   -> ParseRegister(tok).k = "int"
                    [] k = "pcoff" -> ParsePCOffset(tok).k = "int"
                    [] k = "int"   -> ParseInteger(tok, FALSE).k = "int"
                    [] k = "label" -> ParseLabel(tok).k = "label" }
(* a register-shaped token is also label-shaped ("r3"); everywhere else at most one kind applies, *)
(* and the register reading wins in Location positions and is refused in memory positions        *)
Unambiguous(tok) == Cardinality(Kinds(tok) \ {"label"}) <= 1
                    /\ (Kinds(tok) \cap {"int", "pcoff"} # {} => "label" \notin Kinds(tok))
(* the naive pre-check never contradicts the real parse *)
NaiveSound(tok) ==
  /\ (ParseInteger(tok, FALSE).k = "int" => NaiveType(tok) = "integer")
  /\ (ParsePCOffset(tok).k = "int" => NaiveType(tok) = "pcoffset")
  /\ (ParseRegister(tok).k = "int" => NaiveType(tok) = "register")
  /\ (ParseLabel(tok).k = "label" /\ ParseRegister(tok).k = "none" /\ ParseInteger(tok, FALSE).k = "none"
        => NaiveType(tok) = "label")

(***************************************************************************)
(* Command lines.  A line is split into tokens at spaces; the first one or *)
(* two tokens name the command (help.txt + alias table, any letter case),  *)
(* the rest are arguments.  Result: the structured command the Debugger    *)
(* module works with, or n = "invalid".                                    *)
(***************************************************************************)
UpperSeq == << "A","B","C","D","E","F","G","H","I","J","K","L","M","N","O","P","Q","R","S","T","U","V","W","X","Y","Z" >>
LowerSeq == << "a","b","c","d","e","f","g","h","i","j","k","l","m","n","o","p","q","r","s","t","u","v","w","x","y","z" >>
Lc(c) == IF c \in Upper THEN LowerSeq[CHOOSE i \in 1 .. 26 : UpperSeq[i] = c] ELSE c
RECURSIVE Join(_)
Join(s) == IF s = << >> THEN "" ELSE s[1] \o Join(Tail(s))
LcWord(tok) == Join([i \in 1 .. Len(tok) |-> Lc(tok[i])])

(* tokens: maximal runs of non-space characters *)
RECURSIVE Tokens(_, _, _)
Tokens(s, cur, acc) ==
  IF s = << >> THEN (IF cur = << >> THEN acc ELSE Append(acc, cur))
  ELSE IF s[1] = " " THEN Tokens(Tail(s), << >>, IF cur = << >> THEN acc ELSE Append(acc, cur))
  ELSE Tokens(Tail(s), Append(cur, s[1]), acc)

(* rest of the line after the first n tokens, trimmed (for eval / echo) *)
RECURSIVE DropLead(_)
DropLead(s) == IF s # << >> /\ s[1] = " " THEN DropLead(Tail(s)) ELSE s
RECURSIVE DropTrail(_)
DropTrail(s) == IF s # << >> /\ s[Len(s)] = " " THEN DropTrail(SubSeq(s, 1, Len(s) - 1)) ELSE s
RECURSIVE SkipTokens(_, _)
SkipTokens(s, n) ==
  IF n = 0 THEN s
  ELSE LET t == DropLead(s)
           k == CHOOSE i \in 0 .. Len(t) : (i = Len(t) \/ t[i + 1] = " ") /\ \A j \in 1 .. i : t[j] # " "
       IN  SkipTokens(Rest(t, k), n - 1)
(* the rest is trimmed the way str::trim does it: of every white-space character, not only the blank that separates tokens [descriptive] *)
TrimSet == {" ", "\t", "\n", "\r", "\f", " ", "　"}
RECURSIVE TrimLead(_)
TrimLead(s) == IF s # << >> /\ s[1] \in TrimSet THEN TrimLead(Tail(s)) ELSE s
RECURSIVE TrimTrail(_)
TrimTrail(s) == IF s # << >> /\ s[Len(s)] \in TrimSet THEN TrimTrail(SubSeq(s, 1, Len(s) - 1)) ELSE s
RestOfLine(line, n) == TrimTrail(TrimLead(SkipTokens(line, n)))

Names == [
  help |-> {"h", "help", "--help", "-h", ":h", "man", "info", "wtf"},
  continue |-> {"c", "continue", "cont"},
  print |-> {"p", "print"},
  move |-> {"m", "move"},
  registers |-> {"r", "registers", "reg"},
  goto |-> {"g", "goto"},
  assembly |-> {"a", "assembly", "asm"},
  eval |-> {"e", "eval", "evil", "evaluate"},
  reset |-> {"z", "reset"},
  echo |-> {"echo"},
  quit |-> {"q", "quit"},
  exit |-> {"x", "exit", ":q", ":wq", "^c"},
  stepinto |-> {"si", "stepinto"},
  stepout |-> {"so", "stepout"},
  breaklist |-> {"bl", "breaklist"},
  breakadd |-> {"ba", "breakadd"},
  breakremove |-> {"br", "breakremove"} ]
StepSub  == [stepinto |-> {"i", "into"}, stepout |-> {"o", "out"}]
BreakSub == [breaklist |-> {"l", "list"}, breakadd |-> {"a", "add"}, breakremove |-> {"r", "remove"}]

(* [n |-> command name or "invalid", used |-> tokens consumed by the name] *)
NameOf(toks) ==
  LET w1 == LcWord(toks[1]) IN
  IF w1 \in {"step", "s"} THEN
       IF Len(toks) = 1 THEN [n |-> "step", used |-> 1]
       ELSE LET w2 == LcWord(toks[2]) IN
            IF \E k \in DOMAIN StepSub : w2 \in StepSub[k]
            THEN [n |-> CHOOSE k \in DOMAIN StepSub : w2 \in StepSub[k], used |-> 2]
            ELSE [n |-> "invalid", used |-> 2]
  ELSE IF w1 \in {"b", "break"} THEN
       IF Len(toks) = 1 THEN [n |-> "invalid", used |-> 1]
       ELSE LET w2 == LcWord(toks[2]) IN
            IF \E k \in DOMAIN BreakSub : w2 \in BreakSub[k]
            THEN [n |-> CHOOSE k \in DOMAIN BreakSub : w2 \in BreakSub[k], used |-> 2]
            ELSE [n |-> "invalid", used |-> 2]
  ELSE IF \E k \in DOMAIN Names : w1 \in Names[k]
       THEN [n |-> CHOOSE k \in DOMAIN Names : w1 \in Names[k], used |-> 1]
       ELSE [n |-> "invalid", used |-> 1]

DummyItem == [k |-> "ret", labs |-> << >>, a |-> 0, b |-> 0, c |-> 0, m |-> "r", tt |-> "lit", tn |-> "", tv |-> 0, s |-> << >>]
C(n, lt, lv, ln, v, s) == [n |-> n, lt |-> lt, lv |-> lv, ln |-> ln, v |-> v, s |-> s, wf |-> FALSE, it |-> DummyItem]
Invalid == C("invalid", "none", 0, "", 0, "")
LocCmd(n, m, v) ==
  IF m.k = "err" THEN Invalid
  ELSE C(n, m.k, m.v, Join(m.name), v, "")

(* the line as the debugger sees it: already trimmed, no ';' or newline inside *)
ParseLine(line) ==
  LET toks == Tokens(line, << >>, << >>) IN
  IF toks = << >> THEN Invalid
  ELSE
  LET nm   == NameOf(toks)
      args == Rest(toks, nm.used)
      na   == Len(args)
  IN
  CASE nm.n = "invalid" -> Invalid
    [] nm.n = "help" -> C("help", "none", 0, "", 0, "")
    [] nm.n \in {"step", "continue", "stepout", "registers", "reset", "quit", "exit", "breaklist"} ->
         IF na = 0 THEN C(nm.n, "none", 0, "", 0, "") ELSE Invalid
    [] nm.n = "stepinto" ->
         IF na = 0 THEN C("stepinto", "none", 0, "", 1, "")
         ELSE IF na > 1 THEN Invalid
         ELSE LET v == ParseValue(args[1]) IN
              IF v.k = "int" THEN C("stepinto", "none", 0, "", IF v.v < 1 THEN 1 ELSE v.v, "") ELSE Invalid
    [] nm.n = "print" ->
         IF na # 1 THEN Invalid ELSE LocCmd("print", ParseLocation(args[1]), 0)
    [] nm.n = "move" ->
         IF na # 2 THEN Invalid
         ELSE LET v == ParseValue(args[2]) IN
              IF v.k = "int" THEN LocCmd("move", ParseLocation(args[1]), v.v) ELSE Invalid
    [] nm.n \in {"goto", "breakadd", "breakremove"} ->
         IF na # 1 THEN Invalid ELSE LocCmd(nm.n, ParseMemoryLocation(args[1]), 0)
    [] nm.n = "assembly" ->
         IF na = 0 THEN C("assembly", "pcoff", 0, "", 0, "")
         ELSE IF na > 1 THEN Invalid ELSE LocCmd("assembly", ParseMemoryLocation(args[1]), 0)
    [] nm.n = "echo" ->
         LET r == RestOfLine(line, nm.used) IN
         IF r = << >> THEN Invalid ELSE C("echo", "none", 0, "", 0, Join(r))
    [] nm.n = "eval" ->
         LET r == RestOfLine(line, nm.used) IN
         IF r = << >> THEN Invalid ELSE C("eval", "none", 0, "", 0, Join(r))

(***************************************************************************)
(* Transports: a script is cut into command lines at ';' and newline,      *)
(* whichever way it arrives (--command, stdin, or both one after the       *)
(* other); lines are trimmed and empty ones skipped.                       *)
(***************************************************************************)
RECURSIVE CutLines(_, _, _)
CutLines(s, cur, acc) ==
  IF s = << >> THEN Append(acc, cur)
  ELSE IF s[1] \in {";", "\n"} THEN CutLines(Tail(s), << >>, Append(acc, cur))
  ELSE CutLines(Tail(s), Append(cur, s[1]), acc)
Blank(c) == c \in {" ", "\t", "\r"}
RECURSIVE TrimL(_)
TrimL(s) == IF s # << >> /\ Blank(s[1]) THEN TrimL(Tail(s)) ELSE s
RECURSIVE TrimR(_)
TrimR(s) == IF s # << >> /\ Blank(s[Len(s)]) THEN TrimR(SubSeq(s, 1, Len(s) - 1)) ELSE s
Deliver(script) ==
  LET ls == CutLines(script, << >>, << >>)
      tr == [i \in 1 .. Len(ls) |-> TrimR(TrimL(ls[i]))]
  IN  SelectSeq(tr, LAMBDA x : x # << >>)
=============================================================================
