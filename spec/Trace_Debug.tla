----------------------------- MODULE Trace_Debug -----------------------------
(***************************************************************************)
(* Trace validation of real runs and debugger sessions (C03, C09-C13, C15, *)
(* C16, C17 and the run-time half of C18) against Machine / Debugger.      *)
(*                                                                         *)
(* Events (one JSON object per line, recorded through the cfg-gated hooks):*)
(*   load  image, flags, input, assembler side tables, observed state      *)
(*   loop  top of a run-loop iteration: pc, attached, lines printed before *)
(*         the first command of the iteration, observed state              *)
(*   cmd   a consumed command: structured form, printed lines, program     *)
(*         output, observed state and breakpoint list afterwards           *)
(*   exec  an executed instruction: fetch address, word, observed state,   *)
(*         output, input consumed                                          *)
(*   stop  how run() ended, final observed state; for sessions made only   *)
(*         of non-mutating commands also the final state/output of the     *)
(*         same image run without debugger (C09)                           *)
(* Every observed state is the diff over all 65,536 words against the      *)
(* previous observation, so a write anywhere is visible.                   *)
(*                                                                         *)
(* An event no action explains is recorded in `bad` with a reason and the  *)
(* rest of that session is skipped (`taint`) - the debugger's control      *)
(* state is not logged, so it cannot be re-adopted reliably.               *)
(***************************************************************************)
EXTENDS TraceCommon, Debugger, CmdLang

VARIABLES l, bad, taint, pure
tvars == << l, bad, taint, pure >>
vars == << allvars, tvars >>

Ev == Rec[l]

SymOfList(d) == LET idx == 1 .. Len(d)
                IN  [n \in { d[k][1] : k \in idx } |-> d[CHOOSE k \in idx : d[k][1] = n][2]]

Init ==
  /\ l = 1 /\ bad = {} /\ taint = TRUE /\ pure = FALSE
  /\ st = LoadState(0, << >>) /\ orig = 0 /\ stackOn = FALSE /\ inp = << >> /\ run = "done" /\ lastOut = << >>
  /\ attached = FALSE /\ status = Wait /\ bps = {} /\ cur = -1 /\ icount = 0 /\ phase = "top"
  /\ initial = LoadState(0, << >>) /\ syms = << >> /\ texts = << >> /\ tags = << >> /\ text = << >>
  /\ iter = 0 /\ nExec = 0 /\ nCmd = 0

(* the observation carried by an event, as a machine state (diff applied to the spec's memory) *)
Obs(e)      == [reg |-> RegOf(e.reg), pc |-> e.pc, cc |-> e.cc, mem |-> ApplyDiff(st.mem, e.memd)]
SameSt(a, b) == a.reg = b.reg /\ a.pc = b.pc /\ a.cc = b.cc /\ MemEq(a.mem, b.mem)
Quiet(e)    == SameSt(Obs(e), st)

(* ---------------------------------------------------------------- load *)
ExpOrigin(e) == IF e.odecl = -1 THEN DefaultOrigin ELSE e.odecl
LoadOk(e) == LET s == LoadState(ExpOrigin(e), e.words)
             IN  /\ RegOf(e.reg) = s.reg /\ e.pc = s.pc /\ e.cc = s.cc
                 /\ MemEq(MemOfList(e.mem), s.mem)
                 /\ e.orig = ExpOrigin(e)
                 /\ LoaderAccepts(e.orig, Len(e.words))
                 (* C11: the breakpoints the debugger starts with are the .break directives of the source, at origin + line *)
                 /\ ("bps0" \in DOMAIN e =>
                       { e.bps0[k] : k \in 1 .. Len(e.bps0) } = { ExpOrigin(e) + b : b \in Asm!Breaks(e.ast) })
TLoad ==
  /\ l <= NRec /\ Ev.ev = "load"
  /\ LET s == [reg |-> RegOf(Ev.reg), pc |-> Ev.pc, cc |-> Ev.cc, mem |-> MemOfList(Ev.mem)] IN
     /\ st' = s /\ initial' = s
     /\ orig' = Ev.orig /\ stackOn' = Ev.stack /\ inp' = Ev.inb /\ run' = "running" /\ lastOut' = << >>
     /\ attached' = Ev.att /\ status' = Wait /\ cur' = -1 /\ icount' = 0 /\ phase' = "top"
     /\ bps' = IF "bps0" \in DOMAIN Ev THEN { Ev.bps0[k] : k \in 1 .. Len(Ev.bps0) }
                ELSE { (Ev.orig + Ev.brk[k]) % 65536 : k \in 1 .. Len(Ev.brk) }
     /\ syms' = SymOfList(Ev.syms) /\ texts' = SymOfList(Ev.texts)
     /\ tags' = << >> /\ text' = << >> /\ iter' = 0 /\ nExec' = 0 /\ nCmd' = 0
     /\ pure' = Ev.pure /\ taint' = FALSE
     /\ bad' = IF LoadOk(Ev) THEN bad ELSE bad \cup { << l, "load-state" >> }
  /\ l' = l + 1

(* a load that failed: a raw image is refused exactly when it does not fit (C03/C06);         *)
(* an assembly error is the assembler's verdict (decided by C04/C18), a panic never is       *)
LoadFailOk(e) == IF e.raw THEN e.kind = "exit" /\ e.code = 238 /\ ~LoaderAccepts(e.o, e.n)
                 ELSE e.kind = "asm-error"
TLoadFail ==
  /\ l <= NRec /\ Ev.ev = "loadfail"
  /\ bad' = IF LoadFailOk(Ev) THEN bad ELSE bad \cup { << l, "load-refused" >> }
  /\ taint' = TRUE /\ l' = l + 1 /\ UNCHANGED << allvars, pure >>

(* ---------------------------------------------------------------- loop *)
TLoopAttached ==
  /\ Ev.ev = "loop" /\ attached /\ Ev.att
  /\ DLoopTop
  /\ tags' = Ev.tags
  /\ Quiet(Ev)
TLoopDetached ==
  /\ Ev.ev = "loop" /\ ~attached /\ ~Ev.att /\ run = "running"
  /\ Ev.tags = << >> /\ Quiet(Ev)
  /\ iter' = iter + 1
  /\ UNCHANGED << mvars, attached, status, bps, cur, icount, phase, initial, syms, texts, tags, text, nExec, nCmd >>

(* ----------------------------------------------------------------- cmd *)
SortedNoDup(s) == \A i \in 1 .. Len(s) - 1 : s[i] < s[i + 1]
(* C14: when the event carries the raw command line, the command is what CmdLang says it is *)
CmdOf(e) == IF "chars" \in DOMAIN e THEN ParseLine(e.chars) ELSE e.c
TCmd ==
  /\ Ev.ev = "cmd"
  /\ DCmd(CmdOf(Ev), Ev.reg[1])
  /\ SameSt(Obs(Ev), st')
  /\ { Ev.bps[k] : k \in 1 .. Len(Ev.bps) } = bps' /\ SortedNoDup(Ev.bps)
  /\ (text' # << "?" >> => Ev.err = text')
  /\ Ev.post = tags'                      \* printed by the status machine right after the command
  /\ Ev.out = lastOut'
  /\ (CmdOf(Ev).n \in {"quit", "eof"} <=> Ev.det)

(* ---------------------------------------------------------------- exec *)
ExecMatches ==
  /\ Ev.at = st.pc /\ Ev.instr = Fetched
  /\ SameSt(Obs(Ev), st') /\ Ev.out = lastOut'
  /\ Ev.nin = Len(inp) - Len(inp')
  /\ run' = "running"
  /\ Ev.banner = (IsHaltWord(Fetched))
TExecAttached == /\ Ev.ev = "exec" /\ attached /\ DExec /\ ExecMatches
TExecDetached ==
  /\ Ev.ev = "exec" /\ ~attached /\ run = "running" /\ st.pc # 65535
  /\ MStep /\ ExecMatches
  /\ nExec' = nExec + 1      \* the loop tick itself was counted at the loop event
  /\ UNCHANGED << attached, status, bps, cur, icount, phase, initial, syms, texts, tags, text, nCmd, iter >>

(* ---------------------------------------------------------------- stop *)
(* what the next machine step would be, had it been taken *)
NextKind == IF InWindow(orig, st.pc) THEN StepResult(0).kind ELSE "oob"
CanExecNow == IF attached THEN phase = "proceed" /\ ~AtHalt /\ InWindow(orig, st.pc)
              ELSE st.pc # 65535 /\ InWindow(orig, st.pc)
Bumped == [st EXCEPT !.pc = Inc16(st.pc)]
Transparent(e) == pure => (e.fin = e.ref)
TStop ==
  /\ Ev.ev = "stop"
  /\ CASE Ev.kind = "return" ->
            /\ \/ run = "done"                                        \* `exit`
               \/ (~attached /\ run = "running" /\ st.pc = 65535)     \* HALT / PC = 0xFFFF
            /\ Quiet(Ev) /\ Ev.code = 0
       [] Ev.kind = "exit" /\ Ev.code = 238 ->
            \/ (~attached /\ run = "running" /\ st.pc # 65535 /\ ~InWindow(orig, st.pc) /\ Quiet(Ev))
            \/ (run = "running" /\ CanExecNow /\ NextKind = "exc" /\ SameSt(Obs(Ev), Bumped))
            \/ (run = "exc" /\ Quiet(Ev))                             \* eval of a failing trap
       [] Ev.kind = "exit" /\ Ev.code = 1 ->
            \/ (run = "running" /\ CanExecNow /\ NextKind \in {"exit1", "eof"} /\ SameSt(Obs(Ev), Bumped))
            \/ (run = "exit1" /\ Quiet(Ev))
       (* the step budget of the harness ran out while instructions were still being executed: the PROGRAM is long-running (a wild jump   *)
       (* into a sled of zero words takes up to 65,024 steps to reach 0xFE00). That says nothing against the debugger as long as every   *)
       (* iteration was paid for (ProgressBound, below); a debugger that spins WITHOUT executing violates ProgressBound or trips the      *)
       (* watchdog. The final-state comparison of C09 is skipped for such a session: reference and session stopped at different points. *)
       [] Ev.kind = "fuel"  -> run = "running"
       [] Ev.kind = "panic" -> run = "running" /\ CanExecNow /\ NextKind = "unspec"
       [] OTHER -> FALSE
  /\ (Ev.kind # "fuel" => Transparent(Ev))
  /\ ProgressBound
  /\ taint' = TRUE
  /\ UNCHANGED << allvars, bad, pure >>

(* TLC wants the frame spelled out per disjunct *)
Step(A) == /\ l <= NRec /\ ~taint /\ A /\ l' = l + 1

TRegular ==
  \/ Step(TLoopAttached /\ UNCHANGED << bad, taint, pure >>)
  \/ Step(TLoopDetached /\ UNCHANGED << bad, taint, pure >>)
  \/ Step(TCmd /\ UNCHANGED << bad, taint, pure >>)
  \/ Step(TExecAttached /\ UNCHANGED << bad, taint, pure >>)
  \/ Step(TExecDetached /\ UNCHANGED << bad, taint, pure >>)
  \/ Step(TStop)

(* why the spec could not follow (classification of findings) *)
Reason ==
  CASE Ev.ev = "stop" /\ Ev.kind = "fuel" -> "no-progress"
    [] Ev.ev = "stop" /\ Ev.kind = "panic" -> "panic"
    [] attached /\ status.k = "over" /\ status.depth > 0 /\ st.pc = status.ret -> "step-over-reentered"
    [] Ev.ev = "cmd" -> "cmd:" \o CmdOf(Ev).n
    [] OTHER -> Ev.ev

TResync ==
  /\ l <= NRec /\ ~taint /\ Ev.ev \notin {"load", "loadfail", "hang"}
  /\ ~ENABLED TRegular
  /\ bad' = bad \cup { << l, Reason >> } /\ taint' = TRUE /\ l' = l + 1
  /\ UNCHANGED << allvars, pure >>

(* the harness' watchdog: the session's thread never came back - the debugger was spinning without executing *)
(* an instruction or reading a command (C16)                                                               *)
THang ==
  /\ l <= NRec /\ Ev.ev = "hang"
  /\ bad' = bad \cup { << l, "no-progress" >> } /\ taint' = TRUE /\ l' = l + 1
  /\ UNCHANGED << allvars, pure >>

TSkip ==
  /\ l <= NRec /\ taint /\ Ev.ev \notin {"load", "loadfail", "hang"}
  /\ l' = l + 1 /\ UNCHANGED << allvars, bad, taint, pure >>

Next == TLoad \/ TLoadFail \/ TRegular \/ TResync \/ TSkip \/ THang
Spec == Init /\ [][Next]_vars

TypeOK == /\ st.pc \in W /\ st.cc \in {0, 1, 2, 4} /\ \A k \in 0 .. 7 : st.reg[k] \in W
          /\ \A a \in bps : a \in W
(* C11: breakpoints added at run time lie in user space *)
Accepted ==
  /\ PrintT(<< "TRACE-RESULT", IOEnv.TRACE, NRec, TLCGet("stats").diameter - 1 >>)
  /\ TLCGet("stats").diameter = NRec + 1
Done == l = NRec + 1 => PrintT(<< "TRACE-BAD", IOEnv.TRACE, bad >>)
=============================================================================
