SPECIFICATION Spec
INVARIANT TypeOK
INVARIANT Done
POSTCONDITION Accepted
CHECK_DEADLOCK FALSE
