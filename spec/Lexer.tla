-------------------------------- MODULE Lexer --------------------------------
(***************************************************************************)
(* The assembler's lexer at character level (src/lexer/mod.rs): the raw    *)
(* token stream - kinds with literal values, and spans - of any text.      *)
(* [descriptive: this documents what lace lexes; the normative content is  *)
(* the literal grammar of C01/C04 (#dec, xHEX, 0xHEX, signs, 16-bit range, *)
(* two's-complement reading), keyword case-insensitivity, the register     *)
(* rule, and the feature gate of C18]                                      *)
(*                                                                         *)
(* A text is a sequence of one-character strings; positions are 0-based    *)
(* character indices.  Token kinds are rendered as the implementation's    *)
(* Debug text ("Instr(Add)", "Lit(Hex(12288))", "Reg(R3)", ...) so that a  *)
(* recorded token stream can be compared literally.                        *)
(***************************************************************************)
EXTENDS CmdLang

Ws      == {" ", "\t", "\n", "\r", "\f", ",", ":"}
IdChars == Lower \cup Upper \cup Digits \cup {"_"}
RegNums == {"0", "1", "2", "3", "4", "5", "6", "7"}

At(s, i) == IF i < Len(s) THEN s[i + 1] ELSE "EOF"       \* 0-based; "EOF" past the end

RECURSIVE SkipWhile(_, _, _)
SkipWhile(s, i, set) == IF i < Len(s) /\ s[i + 1] \in set THEN SkipWhile(s, i + 1, set) ELSE i
RECURSIVE SkipUntil(_, _, _)
SkipUntil(s, i, set) == IF i < Len(s) /\ s[i + 1] \notin set THEN SkipUntil(s, i + 1, set) ELSE i
Slice(s, a, b) == SubSeq(s, a + 1, b)                     \* characters a .. b-1

(* ---- keywords ---- *)
InstrNames == [
  add |-> "Add", and |-> "And", br |-> "Br(Nzp)", brnzp |-> "Br(Nzp)", brnz |-> "Br(Nz)", brzp |-> "Br(Zp)", brnp |-> "Br(Np)",
  brn |-> "Br(N)", brz |-> "Br(Z)", brp |-> "Br(P)", jmp |-> "Jmp", jsr |-> "Jsr", jsrr |-> "Jsrr", ld |-> "Ld", ldi |-> "Ldi",
  ldr |-> "Ldr", lea |-> "Lea", not |-> "Not", ret |-> "Ret", rti |-> "Rti", st |-> "St", sti |-> "Sti", str |-> "Str",
  pop |-> "Pop", push |-> "Push", call |-> "Call", rets |-> "Rets" ]
TrapNames2 == [trap |-> "Generic", getc |-> "Getc", out |-> "Out", puts |-> "Puts", in |-> "In", putsp |-> "Putsp",
               halt |-> "Halt", putn |-> "Putn", reg |-> "Reg"]
DirNames == [orig |-> "Orig", end |-> "End", stringz |-> "Stringz", blkw |-> "Blkw", fill |-> "Fill", break |-> "Break"]
StackWords == {"pop", "push", "call", "rets"}

(* classification of an identifier (already lower-cased): token kind or the gate error *)
IdentKind(w, on) ==
  IF w \in StackWords /\ ~on THEN "error:lex::stack_extension_not_enabled"
  ELSE IF w \in DOMAIN InstrNames THEN "Instr(" \o InstrNames[w] \o ")"
  ELSE IF w \in DOMAIN TrapNames2 THEN "Trap(" \o TrapNames2[w] \o ")"
  ELSE "Label"

(* ---- integer text, as Rust's from_str_radix reads it ---- *)
(* scan digits left to right: "ok" value | "invalid" (bad digit / empty) | "overflow" - whichever comes first *)
RECURSIVE ScanDigits(_, _, _, _)
ScanDigits(s, radix, acc, limit) ==
  IF s = << >> THEN [k |-> "ok", v |-> acc]
  ELSE IF ~IsDigit(s[1], radix) THEN [k |-> "invalid", v |-> 0]
  ELSE IF acc * radix + DigVal[s[1]] > limit THEN [k |-> "overflow", v |-> 0]
  ELSE ScanDigits(Tail(s), radix, acc * radix + DigVal[s[1]], limit)

(* parse as i16 first, then as u16; result: [k: "val" | "invalid" | "overflow", v: the 16-bit WORD] *)
Parse16(txt, radix) ==
  LET neg  == txt # << >> /\ txt[1] = "-"
      sgn  == txt # << >> /\ txt[1] \in {"+", "-"}
      body == IF sgn THEN Tail(txt) ELSE txt
  IN  IF body = << >> THEN [k |-> "invalid", v |-> 0]
      ELSE LET asI == ScanDigits(body, radix, 0, IF neg THEN 32768 ELSE 32767) IN
           IF asI.k = "ok" THEN [k |-> "val", v |-> IF neg THEN (65536 - asI.v) % 65536 ELSE asI.v]
           ELSE IF neg THEN [k |-> "invalid", v |-> 0]           \* an unsigned parse refuses '-'
           ELSE LET asU == ScanDigits(body, radix, 0, 65535) IN
                IF asU.k = "ok" THEN [k |-> "val", v |-> asU.v] ELSE [k |-> asU.k, v |-> 0]

Tok(k, off, len) == [k |-> k, off |-> off, len |-> len]
IsErrKind(k) == k \in {"error:lex::stack_extension_not_enabled", "error:lex::bad_lit", "error:lex::dir", "error:lex::str_lit", "error:lex::unknown"}
SignedStr(w) == IF w >= 32768 THEN "-" \o ToString(65536 - w) ELSE ToString(w)

(* ---- one token starting at position i (i < Len(s)); returns [tok, next] ---- *)
RECURSIVE CloseStr(_, _)
(* position just after the closing quote, or -1 if the line / text ends first *)
CloseStr(s, k) == IF k >= Len(s) THEN -1
                  ELSE IF s[k + 1] = "\n" THEN -1
                  ELSE IF s[k + 1] = "\"" THEN k + 1
                  ELSE IF s[k + 1] = "\\" THEN CloseStr(s, k + 2)
                  ELSE CloseStr(s, k + 1)

OneToken(s, i, on) ==
  LET c == s[i + 1] IN
  IF c = ";" THEN LET j == SkipUntil(s, i + 1, {"\n"}) IN [tok |-> Tok("Comment", i, j - i), next |-> j]
  ELSE IF c \in Ws THEN LET j == SkipWhile(s, i + 1, Ws) IN [tok |-> Tok("Whitespace", i, j - i), next |-> j]
  ELSE IF c \in {"x", "X"} \/ (c = "0" /\ At(s, i + 1) \in {"x", "X"}) THEN
       (* hex literal: everything up to the next separator *)
       LET p   == IF c = "0" THEN i + 2 ELSE i + 1
           j   == SkipUntil(s, p, Ws)
           r   == Parse16(Slice(s, p, j), 16)
       IN  IF r.k = "val" THEN [tok |-> Tok("Lit(Hex(" \o ToString(r.v) \o "))", i, j - i), next |-> j]
           ELSE IF r.k = "overflow" THEN [tok |-> Tok("error:lex::bad_lit", i, j - i), next |-> j]
           ELSE (* not a number: the whole token is an identifier *)
                [tok |-> Tok(IdentKind(LcWord(Slice(s, i, j)), on), i, j - i), next |-> j]
  ELSE IF c \in {"r", "R"} /\ At(s, i + 1) \in RegNums THEN
       LET j == SkipWhile(s, i + 1, RegNums) IN
       IF j = i + 2 /\ (At(s, j) \in Ws \/ At(s, j) = "EOF")
       THEN [tok |-> Tok("Reg(R" \o s[i + 2] \o ")", i, 2), next |-> j]
       ELSE (* an identifier; its keyword check sees the text from the last digit on, which is never a keyword *)
            LET k == SkipWhile(s, j, IdChars) IN [tok |-> Tok("Label", i, k - i), next |-> k]
  ELSE IF c \in IdChars THEN
       LET j == SkipWhile(s, i + 1, IdChars) IN
       [tok |-> Tok(IdentKind(LcWord(Slice(s, i, j)), on), i, j - i), next |-> j]
  ELSE IF c = "#" THEN
       LET j == SkipUntil(s, i + 1, Ws)
           r == Parse16(Slice(s, i + 1, j), 10)
       IN  IF r.k = "val" THEN [tok |-> Tok("Lit(Dec(" \o SignedStr(r.v) \o "))", i, j - i), next |-> j]
           ELSE [tok |-> Tok("error:lex::bad_lit", i, j - i), next |-> j]
  ELSE IF c = "." THEN
       LET j == SkipWhile(s, i + 1, IdChars)
           w == LcWord(Slice(s, i + 1, j))
       IN  IF w \in DOMAIN DirNames THEN [tok |-> Tok("Dir(" \o DirNames[w] \o ")", i, j - i), next |-> j]
           ELSE [tok |-> Tok("error:lex::dir", i, j - i), next |-> j]
  ELSE IF c = "\"" THEN
       LET j == CloseStr(s, i + 1)
       IN  IF j = -1 THEN [tok |-> Tok("error:lex::str_lit", i, 0), next |-> Len(s)]
           ELSE [tok |-> Tok("Lit(Str)", i, j - i), next |-> j]
  ELSE [tok |-> Tok("error:lex::unknown", i, 0), next |-> Len(s)]

IsError(t) == IsErrKind(t.k)

(* the whole token stream: ends with Eof, or with the first error *)
RECURSIVE LexFrom(_, _, _)
LexFrom(s, i, on) ==
  IF i >= Len(s) THEN << Tok("Eof", 0, 0) >>
  ELSE LET r == OneToken(s, i, on) IN
       IF IsError(r.tok) THEN << r.tok >> ELSE << r.tok >> \o LexFrom(s, r.next, on)
Lex(s, on) == LexFrom(s, 0, on)
=============================================================================
