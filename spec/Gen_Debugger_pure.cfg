SPECIFICATION GSpec
CONSTANT K = 2
CONSTANT MUTATING = FALSE
INVARIANT Emit
CHECK_DEADLOCK FALSE
