SPECIFICATION Spec
CONSTANT Design = "inplace"
CONSTANT MsgFatal = FALSE
INVARIANT TypeOK
INVARIANT C08
INVARIANT Litter
INVARIANT NoTouchWithoutAssembly
INVARIANT CanEnd
CHECK_DEADLOCK FALSE
