-------------------------------- MODULE Word --------------------------------
(***************************************************************************)
(* 16-bit word arithmetic used by every other module.  All values are      *)
(* naturals in 0..65535; every operator reduces modulo 2^16, which is the  *)
(* "wrapping" the LC-3 ISA prescribes for address and data arithmetic      *)
(* (property C02).  [normative]                                            *)
(***************************************************************************)
EXTENDS Integers, Sequences, Bitwise

M16 == 65536
W   == 0 .. 65535

Add16(a, b) == (a + b) % M16
Sub16(a, b) == (a - b + M16) % M16
Inc16(a)    == (a + 1) % M16
Dec16(a)    == (a + 65535) % M16
And16(a, b) == a & b
Not16(a)    == 65535 - a

(* bit field  v[lo+n-1 : lo] *)
Fld(v, lo, n) == (v \div (2 ^ lo)) % (2 ^ n)
Bit(v, i)     == (v \div (2 ^ i)) % 2

(* sign-extend the low `bits` bits of v to 16 bits *)
Sext(v, bits) ==
  LET f == v % (2 ^ bits)
  IN  IF f >= 2 ^ (bits - 1) THEN f + M16 - 2 ^ bits ELSE f

(* two's complement reading of a word, and back *)
ToSigned(v)   == IF v >= 32768 THEN v - M16 ELSE v
FromSigned(i) == ((i % M16) + M16) % M16

(* condition code of a result: 4 = N, 2 = Z, 1 = P *)
CCof(v) == IF v = 0 THEN 2 ELSE IF v >= 32768 THEN 4 ELSE 1

(* the low `bits` bits of a signed integer in two's complement *)
Trunc(i, bits) == ((i % (2 ^ bits)) + 2 ^ bits) % (2 ^ bits)

FitsSigned(i, bits)   == i >= -(2 ^ (bits - 1)) /\ i < 2 ^ (bits - 1)
FitsUnsigned(i, bits) == i >= 0 /\ i < 2 ^ bits

(***************************************************************************)
(* Text helpers: characters are code points (naturals); strings are        *)
(* sequences of code points.                                               *)
(***************************************************************************)
HexDigit(d) == IF d < 10 THEN 48 + d ELSE 87 + d          \* lower case
Hex4(v) == << HexDigit(Fld(v, 12, 4)), HexDigit(Fld(v, 8, 4)),
              HexDigit(Fld(v, 4, 4)),  HexDigit(Fld(v, 0, 4)) >>

RECURSIVE DecDigits(_)
DecDigits(n) == IF n < 10 THEN << 48 + n >>
                ELSE DecDigits(n \div 10) \o << 48 + (n % 10) >>
(* signed decimal, as printed by PUTN *)
DecSigned(v) == LET i == ToSigned(v)
                IN  IF i < 0 THEN << 45 >> \o DecDigits(-i) ELSE DecDigits(i)

Bin3(c) == << 48 + Bit(c, 2), 48 + Bit(c, 1), 48 + Bit(c, 0) >>
=============================================================================
