SPECIFICATION Spec
CONSTANT RESET = FALSE
CONSTANT LEN = 3
INVARIANT Pure
CHECK_DEADLOCK FALSE
