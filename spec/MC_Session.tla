----------------------------- MODULE MC_Session ------------------------------
(***************************************************************************)
(* C19: assembling is a pure function of the text.  Abstract model of the  *)
(* one piece of global assembler state, the symbol table, across a         *)
(* sequence of assemblies in one thread (what `lace watch` does).          *)
(*                                                                         *)
(* A source is abstracted by: the labels it defines (in order), the labels *)
(* it references, and where it fails: "lex" (before anything is recorded), *)
(* "mid" after k labels were recorded, or nowhere.                         *)
(*   Pure        with ResetState between assemblies, the k-th result       *)
(*               equals the result of a fresh assembly                     *)
(*   (sanity)    without the reset the model exhibits the stale-table      *)
(*               failures: a re-used label is a duplicate, an undefined    *)
(*               reference resolves to a stale line                        *)
(***************************************************************************)
EXTENDS Integers, Sequences, FiniteSets, TLC

CONSTANTS RESET, LEN

Names == {"A", "B"}
Src(defs, refs, fail, k) == [defs |-> defs, refs |-> refs, fail |-> fail, k |-> k]
Sources ==
  { Src(<< "A", "B" >>, {"A"}, "none", 0), Src(<< "A" >>, {"B"}, "none", 0), Src(<< "B" >>, {}, "none", 0),
    Src(<< "A", "B" >>, {}, "lex", 0), Src(<< "A", "B" >>, {}, "mid", 1), Src(<< "A", "A" >>, {}, "none", 0),
    Src(<< >>, {}, "none", 0), Src(<< "B", "A" >>, {"B"}, "mid", 2) }

(* result of assembling src when `table` already holds some labels *)
RECURSIVE Record(_, _, _)
Record(defs, table, n) ==     \* insert the first n labels; "dup" if one is already there
  IF n = 0 \/ defs = << >> THEN [ok |-> TRUE, table |-> table]
  ELSE IF Head(defs) \in table THEN [ok |-> FALSE, table |-> table]
  ELSE Record(Tail(defs), table \cup {Head(defs)}, n - 1)

Assemble(src, table) ==
  IF src.fail = "lex" THEN [res |-> "err", table |-> table]
  ELSE LET n == IF src.fail = "mid" THEN src.k ELSE Len(src.defs)
           r == Record(src.defs, table, n)
       IN  IF ~r.ok THEN [res |-> "err", table |-> r.table]
           ELSE IF src.fail = "mid" THEN [res |-> "err", table |-> r.table]
           ELSE IF src.refs \subseteq r.table THEN [res |-> "ok", table |-> r.table]
           ELSE [res |-> "err", table |-> r.table]

Fresh(src) == Assemble(src, {}).res

VARIABLES table, last, lastSrc, n
vars == << table, last, lastSrc, n >>
Init == table = {} /\ last = "none" /\ lastSrc = Src(<< >>, {}, "none", 0) /\ n = 0
Step(src) == LET r == Assemble(src, table) IN
             /\ n < LEN
             /\ last' = r.res /\ lastSrc' = src /\ n' = n + 1
             /\ table' = IF RESET THEN {} ELSE r.table
Next == \E src \in Sources : Step(src)
Spec == Init /\ [][Next]_vars

Pure == n > 0 => last = Fresh(lastSrc)
=============================================================================
