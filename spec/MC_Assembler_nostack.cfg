SPECIFICATION Spec
CONSTANT N = 2
CONSTANT CORE = FALSE
CONSTANT STACK = FALSE
INVARIANT Refines
INVARIANT NoSpill
INVARIANT Progress
CHECK_DEADLOCK FALSE
