------------------------------ MODULE Trace_ISA ------------------------------
(***************************************************************************)
(* Trace validation for C02: every recorded single-instruction execution   *)
(* of the real VM (`set` = planted pre-state, `exec` = instruction word    *)
(* plus observed post-state, output, consumed input, way it ended) must be *)
(* the behaviour ISA!Exec prescribes.                                      *)
(***************************************************************************)
EXTENDS TraceCommon, ISA

VARIABLES st, stackOn, inb, l, bad
vars == << st, stackOn, inb, l, bad >>

Ev == Rec[l]

StOf(e) == [reg |-> RegOf(e.reg), pc |-> e.pc, cc |-> e.cc, mem |-> MemOfList(e.mem)]

Init == /\ l = 1 /\ bad = {}
        /\ st = [reg |-> [k \in 0 .. 7 |-> 0], pc |-> 0, cc |-> 0, mem |-> << >>]
        /\ stackOn = FALSE /\ inb = << >>

TSet == /\ l <= NRec /\ Ev.ev = "set"
        /\ st' = StOf(Ev) /\ stackOn' = Ev.stack /\ inb' = Ev.inb
        /\ l' = l + 1 /\ UNCHANGED bad

(* the logged observation, as a post-state *)
PostOf(e) == [reg |-> RegOf(e.reg), pc |-> e.pc, cc |-> e.cc,
              mem |-> ApplyDiff(st.mem, e.memd)]

SameState(a, b) == a.reg = b.reg /\ a.pc = b.pc /\ a.cc = b.cc /\ MemEq(a.mem, b.mem)

Explains(e) ==
  LET avail == Len(inb) > 0
      inval == e.reg[1]
      r     == Exec(st, e.instr, stackOn, avail, inval)
      post  == PostOf(e)
  IN  CASE r.kind = "unspec" -> TRUE
        [] r.kind \in {"ok", "halt"} ->
             /\ e.kind = "ok"
             /\ SameState(r.st, post)
             /\ e.out = r.out
             /\ e.nin = r.nin
             /\ e.banner = (r.kind = "halt")
             /\ (r.nin = 1 => InputOk(Head(inb), inval))
        [] r.kind = "exc" ->
             e.kind = "exit" /\ e.code = 238 /\ SameState(st, post) /\ e.out = << >>
        [] r.kind \in {"exit1", "eof"} ->
             e.kind = "exit" /\ e.code = 1 /\ SameState(st, post) /\ e.out = << >>

TExec == /\ l <= NRec /\ Ev.ev = "exec"
         /\ Explains(Ev)
         /\ st' = PostOf(Ev) /\ inb' = SubSeq(inb, Ev.nin + 1, Len(inb))
         /\ l' = l + 1 /\ UNCHANGED << stackOn, bad >>

TResync == /\ l <= NRec /\ Ev.ev = "exec"
           /\ ~Explains(Ev)
           /\ bad' = bad \cup {l}
           /\ st' = PostOf(Ev) /\ inb' = SubSeq(inb, Ev.nin + 1, Len(inb))
           /\ l' = l + 1 /\ UNCHANGED stackOn

Next == TSet \/ TExec \/ TResync
Spec == Init /\ [][Next]_vars

(* frame / type invariant evaluated at every step of every validated trace *)
TypeOK == /\ st.pc \in W /\ st.cc \in {0, 1, 2, 4}
          /\ \A k \in 0 .. 7 : st.reg[k] \in W

Accepted ==
  LET ok == (TLCGet("stats").diameter = NRec + 1)
  IN  /\ PrintT(<< "TRACE-RESULT", IOEnv.TRACE, NRec, TLCGet("stats").diameter - 1 >>)
      /\ ok
Done == l = NRec + 1 => PrintT(<< "TRACE-BAD", IOEnv.TRACE, bad >>)
=============================================================================
