------------------------------ MODULE Trace_Lex -------------------------------
(* Trace validation of the real lexer's raw token stream (cfg-gated hook verif::lex) against    *)
(* Lexer!Lex: kinds with literal values, spans in character indices; for an error only its code.  *)
EXTENDS TraceCommon, Lexer

VARIABLES l, bad
vars == << l, bad >>
Ev == Rec[l]
Init == l = 1 /\ bad = {}

Same(exp, got) ==
  /\ Len(exp) = Len(got)
  /\ \A i \in 1 .. Len(exp) :
       /\ got[i][1] = exp[i].k
       /\ (~IsErrKind(exp[i].k) => got[i][2] = exp[i].off /\ got[i][3] = exp[i].len)
Explains(e) == e.panic = FALSE /\ Same(Lex(e.chars, e.stack), e.toks)

TOk  == /\ l <= NRec /\ Explains(Ev) /\ l' = l + 1 /\ UNCHANGED bad
TBad == /\ l <= NRec /\ ~Explains(Ev) /\ bad' = bad \cup { << l, "lex" >> } /\ l' = l + 1
Next == TOk \/ TBad
Spec == Init /\ [][Next]_vars
Accepted ==
  /\ PrintT(<< "TRACE-RESULT", IOEnv.TRACE, NRec, TLCGet("stats").diameter - 1 >>)
  /\ TLCGet("stats").diameter = NRec + 1
Done == l = NRec + 1 => PrintT(<< "TRACE-BAD", IOEnv.TRACE, bad >>)
=============================================================================
