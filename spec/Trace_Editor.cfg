SPECIFICATION Spec
CONSTANT Alnum = {"a", "b", "é", "Z", "9"}
CONSTANT Space = {" ", " "}
CONSTANT Punct = {"+", "😀", ";", ".", "✓"}
INVARIANT Inv
INVARIANT Done
POSTCONDITION Accepted
CHECK_DEADLOCK FALSE
