SPECIFICATION Spec
CONSTANT L = 4
CONSTANT S = 7
INVARIANT Exclusive
INVARIANT Naive
INVARIANT Ranges
INVARIANT RegisterRule
INVARIANT TransportEq
CHECK_DEADLOCK FALSE
