SPECIFICATION Spec
CONSTANT L = 3
INVARIANT Verdict
INVARIANT PreBound
INVARIANT OperandFirst
CHECK_DEADLOCK FALSE
