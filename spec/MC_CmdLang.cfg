SPECIFICATION Spec
CONSTANT L = 3
CONSTANT S = 5
INVARIANT Exclusive
INVARIANT Naive
INVARIANT Ranges
INVARIANT RegisterRule
INVARIANT TransportEq
CHECK_DEADLOCK FALSE
