SPECIFICATION Spec
CONSTANT K = 4
CONSTANT MUTATING = FALSE
INVARIANT ProgressBound
INVARIANT Transparent
INVARIANT StepCounts
INVARIANT StepNoOvershoot
INVARIANT Confined
PROPERTY BreakpointsRespected
PROPERTY NoHaltWhileAttached
CHECK_DEADLOCK FALSE
