SPECIFICATION Spec
CONSTANT N = 3
CONSTANT BOUND = 8
INVARIANT LoadOK
INVARIANT StopKinds
INVARIANT NormalEnd
INVARIANT TypeOK
PROPERTY FetchInBounds
PROPERTY ExcMeans
CHECK_DEADLOCK FALSE
