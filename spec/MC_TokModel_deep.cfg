SPECIFICATION Spec
CONSTANT L = 4
INVARIANT Verdict
INVARIANT PreBound
INVARIANT OperandFirst
CHECK_DEADLOCK FALSE
