------------------------------ MODULE TokModel -------------------------------
(***************************************************************************)
(* The assembler front end as a TOTAL transition system over token kinds   *)
(* (C05, and the "everything else is rejected" half of C04): preprocessing *)
(* of data directives followed by the statement parser, each defined for   *)
(* every (state, token kind) pair.  A source is abstracted to the sequence *)
(* of kinds of its tokens:                                                 *)
(*   LABEL  ADD NOT BR JMP JSR LD LDR CALL RET  TRAPG HALT                 *)
(*   DEC HEX STR REG  ORIG FILL BLKW STRINGZ BREAK END                     *)
(* (ADD stands for the reg,reg,reg|imm forms, LD for reg,label|offset ...) *)
(* All literals are in range for every field, the one label name is used   *)
(* for every definition and reference, the stack extension is enabled.     *)
(***************************************************************************)
EXTENDS Integers, Sequences

Kinds == {"LABEL", "ADD", "NOT", "BR", "JMP", "JSR", "LD", "LDR", "CALL", "RET", "TRAPG", "HALT",
          "DEC", "HEX", "STR", "REG", "ORIG", "FILL", "BLKW", "STRINGZ", "BREAK", "END"}
Num == {"DEC", "HEX"}

(* operand classes an instruction expects, in order *)
Sig(k) == CASE k = "ADD"   -> << "reg", "reg", "regOrLit" >>
            [] k = "NOT"   -> << "reg", "reg" >>
            [] k = "BR"    -> << "labOrLit" >>
            [] k = "JMP"   -> << "reg" >>
            [] k = "JSR"   -> << "labOrLit" >>
            [] k = "LD"    -> << "reg", "labOrLit" >>
            [] k = "LDR"   -> << "reg", "reg", "lit" >>
            [] k = "CALL"  -> << "lab" >>
            [] k = "TRAPG" -> << "lit" >>
            [] OTHER       -> << >>            \* RET, HALT

(* does token kind t satisfy operand class c?  "ref" when it is a label reference *)
Fits(c, t) == CASE c = "reg"      -> t = "REG"
                [] c = "lit"      -> t \in Num
                [] c = "regOrLit" -> t = "REG" \/ t \in Num        \* a string literal is peeked as literal, then refused
                [] c = "labOrLit" -> t = "LABEL" \/ t \in Num
                [] c = "lab"      -> t = "LABEL"

(* ---- preprocessing: data directives swallow their operand ---- *)
(* results carry the diagnostic code the failure is reported with [descriptive]                *)
PErr(code) == [ok |-> FALSE, toks |-> << >>, code |-> code]
POk(t) == [ok |-> TRUE, toks |-> t, code |-> ""]
Cons(pre, r) == IF r.ok THEN POk(pre \o r.toks) ELSE r
RECURSIVE Pre(_)
Pre(s) ==
  IF s = << >> THEN POk(<< >>)
  ELSE LET h == s[1] IN
       IF h = "END" THEN POk(<< >>)
       ELSE IF h = "FILL" THEN
              IF Len(s) >= 2 /\ s[2] \in Num THEN Cons(<< "BYTE" >>, Pre(SubSeq(s, 3, Len(s)))) ELSE PErr("preproc::bad_lit")
       ELSE IF h = "BLKW" THEN
              IF Len(s) >= 2 /\ s[2] \in Num
              THEN Cons(IF s[2] = "DEC" THEN << "BYTE" >> ELSE << "BYTE", "BYTE" >>, Pre(SubSeq(s, 3, Len(s))))
              ELSE PErr("preproc::bad_lit")
       ELSE IF h = "STRINGZ" THEN
              IF Len(s) >= 2 /\ s[2] = "STR" THEN Cons(<< "BYTE", "BYTE" >>, Pre(SubSeq(s, 3, Len(s)))) ELSE PErr("preproc::stringz")
       ELSE Cons(<< IF h = "BREAK" THEN "BP" ELSE h >>, Pre(Tail(s)))

(* ---- the statement parser: st = [ok, code, exp, labeled, defs, refs, orig] ---- *)
Fail(st, code) == [st EXCEPT !.ok = FALSE, !.code = code]
Eof == "parse::unexpected_eof"
Unexp == "parse::unexpected_token"
RECURSIVE Par(_, _)
Par(s, st) ==
  IF s = << >> THEN
     (IF st.exp # << >> \/ st.labeled THEN Fail(st, Eof) ELSE st)
  ELSE
  LET t == s[1] rest == Tail(s) IN
  IF st.exp # << >> THEN
     (* inside a statement: the next operand *)
     IF Fits(st.exp[1], t)
     THEN Par(rest, [st EXCEPT !.exp = Tail(@), !.refs = IF t = "LABEL" THEN @ + 1 ELSE @])
     ELSE Fail(st, Unexp)
  ELSE
     (* at the start of a statement *)
     CASE t = "LABEL" -> IF st.labeled THEN Fail(st, Unexp)
                         ELSE IF st.defs >= 1 THEN Fail(st, "parse::duplicate_label")
                         ELSE Par(rest, [st EXCEPT !.labeled = TRUE, !.defs = @ + 1])
       [] t \in {"DEC", "HEX", "STR", "REG"} -> Fail(st, Unexp)
       [] t = "ORIG" -> IF rest = << >> THEN Fail(st, Eof)
                        ELSE IF rest[1] \notin Num THEN Fail(st, Unexp)
                        ELSE IF st.orig THEN Fail(st, "")          \* "Origin set twice." carries no code
                        ELSE Par(Tail(rest), [st EXCEPT !.labeled = FALSE, !.orig = TRUE])
       [] t = "BP"   -> Par(rest, [st EXCEPT !.labeled = FALSE])
       [] t = "BYTE" -> Par(rest, [st EXCEPT !.labeled = FALSE])
       [] OTHER      -> Par(rest, [st EXCEPT !.labeled = FALSE, !.exp = Sig(t)])

Start == [ok |-> TRUE, code |-> "", exp |-> << >>, labeled |-> FALSE, defs |-> 0, refs |-> 0, orig |-> FALSE]

(* verdict and, for a rejection, the diagnostic code ("" = a diagnostic without code) *)
TokResult(s) ==
  LET p == Pre(s) IN
  IF ~p.ok THEN [ok |-> FALSE, code |-> p.code]
  ELSE LET r == Par(p.toks, Start) IN
       IF ~r.ok THEN [ok |-> FALSE, code |-> r.code]
       ELSE IF r.refs > 0 /\ r.defs = 0 THEN [ok |-> FALSE, code |-> ""]     \* "Label not found" (backpatch)
       ELSE [ok |-> TRUE, code |-> ""]
TokAccepts(s) == TokResult(s).ok
=============================================================================
