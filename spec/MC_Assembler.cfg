SPECIFICATION Spec
CONSTANT N = 2
CONSTANT CORE = FALSE
CONSTANT STACK = TRUE
INVARIANT Refines
INVARIANT NoSpill
INVARIANT Progress
CHECK_DEADLOCK FALSE
